"""C05 — then-chaining equals piping; inputs concatenate; NR/FNR/FILENAME track source; sources are transparent.

Reader.tla: Records(files) is the concatenation with the context laws (Annotated: NR, FNR, FILENUM, FILENAME, mid-expression
NF; FinalNR for end blocks), a Source does not appear in it; ChainExpected composes the verb definitions of VerbsSelect.tla.
TLC checks the laws (ReaderMC), enumerates file lists and (verb pair, stream) cases (ReaderGen); the rebuilt binary reads
every file list in several formats/batch sizes and from every kind of source, and runs every chain both with `then` and as
separate processes connected by pipes through DKVP and JSON Lines; ReaderObs judges."""
import bz2
import base64
import gzip
import json
import random
import shlex
import time
import zlib

import b3
import vlib
from engines import c11

PROP = "C05"
ASSIGNMENTS = '$nr = NR; $fnr = FNR; $fnum = FILENUM; $fname = FILENAME; $nf = NF'
PROGRAM = ASSIGNMENTS + '; end { print "ENDNR=" . NR }'
# spelling of Reader.tla's Sel names
SEL_TEXT = {"fnr1": "FNR == 1", "fnr2": "FNR == 2", "fnrgt1": "FNR > 1", "file2": "FILENUM == 2", "filegt1": "FILENUM > 1",
            "nreven": "NR % 2 == 0", "nrgt1": "NR > 1"}


# put/filter stages that use the same names for different things (B2)
DSL_CHAINS = [
    [["put", "func f(a,b) {return a <=> b} $s = joinv(sort([3,1,2], f), \";\")"], ["put", "func f(a,b) {return b <=> a} $t = joinv(sort([3,1,2], f), \";\")"]],
    [["put", "func g(e) {return e . \"x\"} $s = joinv(apply([1,2], g), \";\")"], ["put", "func g(e) {return e . \"y\"} $t = joinv(apply([1,2], g), \";\")"]],
    [["put", "@n += 1; $n1 = @n"], ["put", "@n += 10; $n2 = @n"]],
    [["put", "NR == 2 {filter false}"], ["put", "$k = 1"]],        # (NR only in first stages: a pipe renumbers)
    [["put", "is_present($a) {filter $a != 1}"], ["put", "filter is_present($b)"], ["put", "$z = 1"]],
    [["put", "begin {@c = 5} $c1 = @c"], ["put", "begin {@c = 7} $c2 = @c . \":\" . $c1"]],
    [["put", "subr p(str s) {$p1 = \"1:\" . s} call p(\"x\")"], ["put", "subr p(str s) {$p2 = \"2:\" . s} call p(\"y\")"]],
    [["put", "-q", "@last = $*; end {emit @last}"], ["put", "-q", "@last = $*; end {emit @last}"]],
    [["filter", "NR != 2"], ["put", "$w = 1"], ["filter", "is_present($a)"]],
    [["put", "$u = sub(\"abc\", \"b\", \"X\")"], ["put", "$v = sub(\"abc\", \"B\"i, \"Y\") . sub(\"abc\", \"b\", \"Z\")"]],
]


# chains of restructuring verbs (B3): on records of a dozen fields or more a record carries a key index, which every verb
# of a then-chain shares and a pipe rebuilds
RESTRUCT_CHAINS = [
    [["rename", "a,z"], ["rename", "b,a"]], [["rename", "a,z"], ["cut", "-x", "-f", "a"]], [["rename", "a,z"], ["reorder", "-e", "-f", "a"]],
    [["rename", "-r", "^a$,z"], ["rename", "b,a"]], [["reorder", "-f", "b"], ["rename", "b,q"], ["cut", "-o", "-f", "q,a"]],
    [["cut", "-x", "-f", "p3"], ["rename", "a,p3"]], [["rename", "a,z"], ["sort-within-records"]], [["rename", "a,z"], ["put", "$a = 1"]],
    [["label", "x,y"], ["rename", "x,a"], ["cut", "-x", "-f", "y"]], [["reorder", "-e", "-f", "a"], ["put", "$n = 9"], ["cut", "-x", "-f", "b"]],
    [["rename", "a,z,b,a"], ["rename", "z,b"]], [["template", "-f", "b,a,zz"], ["rename", "zz,a2"], ["unsparsify"]],
    [["nest", "--ivar", ";", "-f", "a"], ["rename", "a,k"]], [["sec2gmt", "a"], ["rename", "a,t"], ["cut", "-f", "t,b"]],
    [["fill-empty"], ["rename", "b,e"], ["reorder", "-f", "e"]], [["rename", "p10,a10"], ["cut", "-r", "-f", "^a"]],
]


def wide_streams():
    """three records each, of 11, 12, 13 and 14 fields (a, b and padding p1..pn)"""
    out = []
    for npad in (9, 10, 11, 12):
        out.append([[["a", str(10 * i + 1)], ["b", "x%d" % i]] + [["p%d" % j, str(j)] for j in range(1, npad + 1)] for i in range(1, 4)])
    out.append(out[1][:1] + [[["b", "only"]]] + out[2][1:])       # mixed widths in one stream
    return out


def render_file(f, fmt):
    h, rows = f["header"], f["rows"]
    if fmt == "dkvp":
        return "".join("\t".join("%s=%s" % (k, v) for k, v in zip(h, r)) + "\n" for r in rows)
    sep = "," if fmt.startswith("csv") else "\t"
    body = "".join(sep.join(r) + "\n" for r in rows)
    if fmt.endswith("implicit"):
        return body
    return sep.join(h) + "\n" + body


BLOCK_FLAGS = {"csvlite": ["--icsvlite"], "pprint": ["--ipprint"]}


def render_block_file(bf, fmt):
    """blocks separated by one blank line, each with its header line"""
    sep = "," if fmt == "csvlite" else " "
    return "\n".join(sep.join(b["header"]) + "\n" + "".join(sep.join(r) + "\n" for r in b["rows"]) for b in bf)


FMT_FLAGS = {
    "dkvp": ["--ifs", "tab"], "csv": ["--icsv"], "tsv": ["--itsv"], "csvlite": ["--icsvlite"],
    "csv-implicit": ["--icsv", "--implicit-csv-header"], "tsv-implicit": ["--itsv", "--implicit-tsv-header"],
}
OUT_FLAGS = ["--odkvp", "--ofs", "tab"]


def parse_tab_dkvp(text):
    recs, endnr = [], ""
    for line in text.split("\n"):
        if line.startswith("ENDNR="):
            endnr = line[6:]
            continue
        if line == "":
            continue
        rec = []
        for pair in line.split("\t"):
            k, _, v = pair.partition("=")
            rec.append([k, v])
        recs.append(rec)
    return recs, endnr


def verb_argv(c):
    return c11.argv_of(c, 0)


def run(tier, seed):
    t0 = time.time()
    rnd = random.Random(seed)
    V = vlib.Verdicts(PROP)
    mlr = vlib.build_mlr()
    thorough = tier == "thorough"
    cov = {"tlc_runs": [], "samples": []}
    laws = b3.check_laws("ReaderMC", {"MaxLen": 2, "MaxFiles": 3})
    if laws.violated:
        raise vlib.Inconclusive("Reader.tla violates its own laws: %s" % laws.violated)
    states, transitions = laws.distinct, laws.generated
    cov["tlc_runs"].append({"module": "ReaderMC", "distinct_states": laws.distinct, "result": "no error"})

    cases, meta = [], []

    # ---- A. file lists ---------------------------------------------------------------------------
    fl, g = b3.gen_cases("ReaderGen", {"MaxLen": 2, "MaxFiles": 3, "Family": '"files"'})
    states += g.distinct
    for k, x in enumerate(fl):
        files = x["files"]
        fmts = list(FMT_FLAGS) if thorough else [list(FMT_FLAGS)[k % len(FMT_FLAGS)], "csv" if k % 2 else "dkvp"]
        for fmt in fmts:
            if fmt == "csvlite" and len({json.dumps(f["header"]) for f in files if f["rows"]}) > 1 and False:
                continue
            for b in ([1, 2, 500] if thorough else [[1, 2, 500][k % 3]]):
                names = ["f%d.%s" % (i + 1, fmt.split("-")[0]) for i in range(len(files))]
                fmap = {n: render_file(f, fmt) for n, f in zip(names, files)}
                argv = [mlr] + FMT_FLAGS[fmt] + OUT_FLAGS + ["--records-per-batch", str(b), "put", PROGRAM] + names
                cases.append({"argv": argv, "files": fmap, "timeout_ms": 10000})
                meta.append({"t": "files", "files": files, "names": names, "implicit": fmt.endswith("implicit"), "fmt": fmt, "b": b})

    # ---- A3. files of several header blocks (schema change inside a file: CSV-lite and PPRINT), every small batch size,
    # so that the blank line and the new header fall on both sides of every batch boundary
    bl, g = b3.gen_cases("ReaderGen", {"MaxLen": 2, "MaxFiles": 3, "Family": '"blocks"'})
    states += g.distinct
    bl = sorted(bl, key=lambda x: json.dumps(x, sort_keys=True))
    if not thorough:
        bl = [x for k, x in enumerate(bl) if (k + seed) % 6 == 0 or len(x["files"]) == 1]
    for k, x in enumerate(bl):
        bfiles = x["files"]
        for fmt in ("csvlite", "pprint"):
            for b in ([1, 2, 3, 4, 5, 500] if (thorough or len(bfiles) == 1) else [[1, 2, 3, 4, 5, 500][k % 6], 1]):
                names = ["f%d.%s" % (i + 1, fmt) for i in range(len(bfiles))]
                fmap = {n: render_block_file(bf, fmt) for n, bf in zip(names, bfiles)}
                argv = [mlr] + BLOCK_FLAGS[fmt] + OUT_FLAGS + ["--records-per-batch", str(b), "put", PROGRAM] + names
                cases.append({"argv": argv, "files": fmap, "timeout_ms": 10000})
                meta.append({"t": "blocks", "files": bfiles, "names": names, "implicit": False, "fmt": fmt, "b": b, "source": "blocks"})

    # ---- A2. where the context variables are consulted: under a pattern, downstream of a filter, downstream of tac ----
    ul, g = b3.gen_cases("ReaderGen", {"MaxLen": 2, "MaxFiles": 3, "Family": '"uses"'})
    states += g.distinct
    if not thorough:
        ul = [x for k, x in enumerate(sorted(ul, key=lambda x: json.dumps(x, sort_keys=True))) if (k + seed) % 4 == 0]
    for k, x in enumerate(ul):
        files, use = x["files"], x["use"]
        fmt = ["dkvp", "csv", "tsv"][k % 3]
        b = [1, 2, 500][(k // 3) % 3]
        names = ["f%d.%s" % (i + 1, fmt) for i in range(len(files))]
        fmap = {n: render_file(f, fmt) for n, f in zip(names, files)}
        cond = SEL_TEXT.get(use["sel"], "true")
        if use["mode"] == "cond":
            chain = ["put", "%s { %s } end { print \"ENDNR=\" . NR }" % (cond, ASSIGNMENTS)]
        elif use["mode"] == "filter":
            chain = ["filter", cond, "then", "put", PROGRAM]
        else:
            chain = ["tac", "then", "put", PROGRAM]
        argv = [mlr] + FMT_FLAGS[fmt] + OUT_FLAGS + ["--records-per-batch", str(b)] + chain + names
        cases.append({"argv": argv, "files": fmap, "timeout_ms": 10000})
        meta.append({"t": "files", "files": files, "names": names, "implicit": False, "fmt": fmt, "b": b, "use": use,
                     "source": "use-%s-%s" % (use["mode"], use["sel"])})

    # ---- A4. the law itself on files whose bytes are spelled unusually (byte-order mark, CR LF, no final newline), in every
    # position of the file list: reading the files together = the concatenation of reading each alone
    SPELL = {"plain": lambda t: t, "bom": lambda t: "\ufeff" + t, "crlf": lambda t: t.replace("\n", "\r\n"),
             "noeol": lambda t: t[:-1] if t.endswith("\n") else t, "bomcrlf": lambda t: "\ufeff" + t.replace("\n", "\r\n")}
    CONCAT_FLAGS = dict(FMT_FLAGS, pprint=["--ipprint"], jsonl=["--ijsonl"], nidx=["--inidx", "--ifs", "space"])

    def render_concat(f, fmt):
        if fmt == "pprint":
            return " ".join(f["header"]) + "\n" + "".join(" ".join(r) + "\n" for r in f["rows"])
        if fmt == "jsonl":
            return "".join(json.dumps(dict(zip(f["header"], r))) + "\n" for r in f["rows"])
        if fmt == "nidx":
            return "".join(" ".join(r) + "\n" for r in f["rows"])
        return render_file(f, fmt)
    multi = sorted((x["files"] for x in fl if len(x["files"]) >= 2 and sum(1 for f in x["files"] if f["rows"]) >= 2
                    and all("" not in r for f in x["files"] for r in f["rows"])),
                   key=lambda fs: json.dumps(fs, sort_keys=True))
    rnd.shuffle(multi)
    cfmts = sorted(CONCAT_FLAGS)
    for k, files in enumerate(multi[:(120 if thorough else 24)]):
        vecs = [[a, b] + ["plain"] * (len(files) - 2) for a in SPELL for b in SPELL]
        if len(files) > 2:
            vecs += [[rnd.choice(list(SPELL)) for _ in files] for _ in range(12)]
        for fmt in ([cfmts[k % len(cfmts)], cfmts[(k + 4) % len(cfmts)]] if not thorough else cfmts):
            for vec in vecs:
                names = ["f%d.%s" % (i + 1, fmt.split("-")[0]) for i in range(len(files))]
                fmap = {n: SPELL[how](render_concat(f, fmt)) for n, f, how in zip(names, files, vec)}
                cmd = " ".join(shlex.quote(a) for a in [mlr] + CONCAT_FLAGS[fmt] + OUT_FLAGS + ["put", PROGRAM])
                shell = "%s %s > tog.out 2> tog.err; echo $? > tog.rc; " % (cmd, " ".join(names)) + \
                        "".join("%s %s > a%d.out 2> a%d.err; echo $? > a%d.rc; " % (cmd, n, i, i, i) for i, n in enumerate(names)) + "echo done"
                cases.append({"shell": shell, "files": fmap, "collect": True, "timeout_ms": 20000})
                meta.append({"t": "concat", "files": files, "names": names, "fmt": fmt, "spelling": vec})

    # ---- C. sources: the same bytes from a file, stdin, --from, compressed files, in-process flags, prepipes ----
    src_files = [x["files"][0] for x in fl if len(x["files"]) == 1 and x["files"][0]["rows"]][:4]
    have_zstd = vlib.sh(["sh", "-c", "command -v zstd"], check=False).returncode == 0
    for f in src_files:
        for fmt in ("dkvp", "csv"):
            raw = render_file(f, fmt).encode()
            ext = fmt
            gz, bz, zl = gzip.compress(raw), bz2.compress(raw), zlib.compress(raw)
            base = [mlr] + FMT_FLAGS[fmt] + OUT_FLAGS
            put = ["put", PROGRAM]
            b64 = lambda b: base64.b64encode(b).decode()
            variants = [
                ("file", {"in." + ext: raw}, base + put + ["in." + ext], None, "in." + ext),
                ("from", {"in." + ext: raw}, base + ["--from", "in." + ext] + put, None, "in." + ext),
                ("stdin", {"in." + ext: raw}, None, " ".join(shlex.quote(a) for a in base + put) + " < in." + ext, "(stdin)"),
                ("gz-ext", {"in.%s.gz" % ext: gz}, base + put + ["in.%s.gz" % ext], None, "in.%s.gz" % ext),
                ("bz2-ext", {"in.%s.bz2" % ext: bz}, base + put + ["in.%s.bz2" % ext], None, "in.%s.bz2" % ext),
                ("z-ext", {"in.%s.z" % ext: zl}, base + put + ["in.%s.z" % ext], None, "in.%s.z" % ext),
                ("gzin", {"in.bin": gz}, base + ["--gzin"] + put + ["in.bin"], None, "in.bin"),
                ("bz2in", {"in.bin": bz}, base + ["--bz2in"] + put + ["in.bin"], None, "in.bin"),
                ("zin", {"in.bin": zl}, base + ["--zin"] + put + ["in.bin"], None, "in.bin"),
                ("prepipe", {"in.bin": gz}, base + ["--prepipe", "gunzip"] + put + ["in.bin"], None, "in.bin"),
                ("prepipex", {"in.bin": gz}, base + ["--prepipex", "gzip -dcf"] + put + ["in.bin"], None, "in.bin"),
                ("prepipe-cat", {"in." + ext: raw}, base + ["--prepipe", "cat"] + put + ["in." + ext], None, "in." + ext),
                ("gz-stdin", {"in.bin": gz}, None, " ".join(shlex.quote(a) for a in base + ["--gzin"] + put) + " < in.bin", "(stdin)"),
            ]
            for name, fb, argv, shell, fname in variants:
                # every source also with a slow reader (hook delay): the bytes must not depend on who is faster
                for env in ({}, {"MLR_VERIF_DELAY": "lines:lines.start:150000,reader:reader.fileStart:150000"}):
                    case = {"files_b64": {k: b64(v) for k, v in fb.items()}, "timeout_ms": 10000, "env": env}
                    if shell:
                        case["shell"] = shell
                    else:
                        case["argv"] = argv
                    cases.append(case)
                    meta.append({"t": "files", "files": [f], "names": [fname], "implicit": False, "fmt": fmt, "source": name})

    # ---- C2. the same, with file names the shell of a prepipe (or anything else on the way) could misread -------
    ODD_NAMES = ["in sp.dkvp", "in'q.dkvp", 'in"dq.dkvp', "in$HOME.dkvp", "in;x.dkvp", "in*.dkvp", "in\\b.dkvp", "in&(x).dkvp",
                 "in#~!{}.dkvp", "in`id`.dkvp", "in|y>z.dkvp", "in?[a].dkvp", "d d/in.dkvp", "\u00e9t\u00e9 \u65e5.dkvp"]
    if src_files:
        f = src_files[0]
        raw = render_file(f, "dkvp").encode()
        gz = gzip.compress(raw)
        base = [mlr] + FMT_FLAGS["dkvp"] + OUT_FLAGS
        put = ["put", PROGRAM]
        b64 = lambda b: base64.b64encode(b).decode()
        for nm in ODD_NAMES:
            variants = [
                ("file-oddname", {nm: raw}, base + put + [nm], nm),
                ("from-oddname", {nm: raw}, base + ["--from", nm] + put, nm),
                ("prepipe-cat-oddname", {nm: raw}, base + ["--prepipe", "cat"] + put + [nm], nm),
                ("prepipex-cat-oddname", {nm: raw}, base + ["--prepipex", "cat"] + put + [nm], nm),
                ("prepipe-gunzip-oddname", {nm: gz}, base + ["--prepipe", "gunzip"] + put + [nm], nm),
                ("gz-ext-oddname", {nm + ".gz": gz}, base + put + [nm + ".gz"], nm + ".gz"),
                ("two-files-oddname", {nm: raw, "plain.dkvp": raw}, base + ["--prepipe", "cat"] + put + ["plain.dkvp", nm], None),
            ]
            for name, fb, argv, fname in variants:
                cases.append({"files_b64": {k: b64(v) for k, v in fb.items()}, "timeout_ms": 10000, "argv": argv})
                if fname is None:
                    meta.append({"t": "files", "files": [f, f], "names": ["plain.dkvp", nm], "implicit": False, "fmt": "dkvp", "source": name})
                else:
                    meta.append({"t": "files", "files": [f], "names": [fname], "implicit": False, "fmt": "dkvp", "source": name})

    # ---- B. chains: then versus pipes ----------------------------------------------------------------
    ch, g = b3.gen_cases("ReaderGen", {"MaxLen": 3 if thorough else 2, "MaxFiles": 1, "Family": '"chain"'})
    states += g.distinct
    verbs = []
    seen = set()
    for x in ch:
        for c in x["cs"]:
            key = json.dumps(c, sort_keys=True)
            if key not in seen:
                seen.add(key)
                verbs.append(c)
    streams = []
    seen = set()
    for x in ch:
        key = json.dumps(x["s"])
        if key not in seen:
            seen.add(key)
            streams.append(x["s"])
    chain_cases = [(x["cs"], x["s"]) for x in ch]
    for _ in range(20000 if thorough else 1500):
        n = 3 if rnd.random() < 0.8 else 4
        chain_cases.append(([rnd.choice(verbs) for _ in range(n)], rnd.choice(streams)))
    if not thorough and len(chain_cases) > 6000:
        head = chain_cases[:len(ch)]
        rnd.shuffle(head)
        chain_cases = head[:4500] + chain_cases[len(ch):]
    for k, (cs, s) in enumerate(chain_cases):
        then_argv = [mlr]
        for j, c in enumerate(cs):
            then_argv += (["then"] if j else []) + verb_argv(c)
        inter = "jsonl" if k % 2 else "dkvp"
        stages = []
        for j, c in enumerate(cs):
            fl_in = [] if j == 0 or inter == "dkvp" else ["--ijsonl"]
            fl_out = [] if j == len(cs) - 1 or inter == "dkvp" else ["--ojsonl"]
            stages.append(" ".join(shlex.quote(a) for a in [mlr] + fl_in + fl_out + verb_argv(c)))
        stages[0] += " < in.dkvp"
        shell = "%s < in.dkvp > then.out; %s > piped.out; echo done" % (
            " ".join(shlex.quote(a) for a in then_argv), " | ".join(stages))
        cases.append({"shell": shell, "files": {"in.dkvp": b3.dkvp(s)}, "collect": True, "timeout_ms": 15000})
        meta.append({"t": "chain", "cs": cs, "s": s, "inter": inter})

    # ---- B2. chains of put/filter stages: every stage has its own functions, subroutines, out-of-stream variables, begin/end
    # blocks and filter conditions, so `A then B` must equal A's output piped into B even when the stages use the same names
    for k, stages_argv in enumerate(DSL_CHAINS):
        for s in streams[:: max(1, len(streams) // (40 if thorough else 12))]:
            if not s:
                continue
            then_argv = [mlr]
            for j, st in enumerate(stages_argv):
                then_argv += (["then"] if j else []) + st
            stages = [" ".join(shlex.quote(a) for a in [mlr] + st) for st in stages_argv]
            stages[0] += " < in.dkvp"
            shell = "%s < in.dkvp > then.out; %s > piped.out; echo done" % (
                " ".join(shlex.quote(a) for a in then_argv), " | ".join(stages))
            cases.append({"shell": shell, "files": {"in.dkvp": b3.dkvp(s)}, "collect": True, "timeout_ms": 15000})
            meta.append({"t": "dslchain", "cs": [], "s": s, "inter": "dkvp", "stages": stages_argv})

    # ---- B3. chains of restructuring verbs on wide records, with --hash-records, --no-hash-records and neither ------
    for k, stages_argv in enumerate(RESTRUCT_CHAINS):
        for s in wide_streams():
            for main in ([], ["--hash-records"], ["--no-hash-records"]):
                then_argv = [mlr] + main
                for j, st in enumerate(stages_argv):
                    then_argv += (["then"] if j else []) + st
                stages = [" ".join(shlex.quote(a) for a in [mlr] + main + st) for st in stages_argv]
                stages[0] += " < in.dkvp"
                shell = "%s < in.dkvp > then.out; %s > piped.out; echo done" % (
                    " ".join(shlex.quote(a) for a in then_argv), " | ".join(stages))
                cases.append({"shell": shell, "files": {"in.dkvp": b3.dkvp(s)}, "collect": True, "timeout_ms": 15000})
                meta.append({"t": "dslchain", "cs": [], "s": s, "inter": "dkvp", "stages": stages_argv})

    res = vlib.run_cases(cases)
    vlib.confirm_timeouts(cases, res)
    obs, omap = [], []
    n_concat = n_concat_skipped = 0
    for i, (m, rr) in enumerate(zip(meta, res)):
        if rr["timed_out"]:
            V.violation({"why": "hang", "t": m["t"]}, {"case": cases[i].get("argv") or cases[i].get("shell")})
            continue
        if m["t"] == "concat":
            got = rr.get("files") or {}
            if "tog.rc" not in got:
                raise vlib.Inconclusive("concat run produced no output files: %s" % rr["stderr"][:300])
            rcs = [got.get("a%d.rc" % j, "1").strip() for j in range(len(m["names"]))]
            if any(x != "0" for x in rcs):
                n_concat_skipped += 1          # a file the reader rejects when read alone: the law says nothing
                continue
            n_concat += 1
            obs.append({"t": "concat", "out": parse_tab_dkvp(got.get("tog.out", ""))[0],
                        "alone": [parse_tab_dkvp(got.get("a%d.out" % j, ""))[0] for j in range(len(m["names"]))],
                        "exit": int(got["tog.rc"].strip() or 1), "files": [], "names": m["names"], "implicit": False, "endnr": "",
                        "use": {"mode": "every", "sel": "all"}, "cs": [], "s": [], "piped": []})
            omap.append(i)
            continue
        if m["t"] in ("files", "blocks"):
            out, endnr = parse_tab_dkvp(rr["stdout"])
            obs.append({"t": m["t"], "files": m["files"], "names": m["names"], "implicit": m["implicit"], "out": out, "endnr": endnr,
                        "use": m.get("use", {"mode": "every", "sel": "all"}),
                        "exit": rr["exit"], "cs": [], "s": [], "piped": []})
        else:
            files = rr.get("files") or {}
            if "then.out" not in files or "piped.out" not in files:
                raise vlib.Inconclusive("chain run produced no output files: %s" % rr["stderr"][:300])
            obs.append({"t": m["t"], "cs": m["cs"], "s": m["s"], "out": b3.parse_dkvp(files["then.out"]),
                        "piped": b3.parse_dkvp(files["piped.out"]), "exit": rr["exit"], "files": [], "names": [], "implicit": False, "endnr": "",
                        "use": {"mode": "every", "sel": "all"}})
        omap.append(i)
    bad, n = b3.validate("ReaderObs", obs, chunk=4000)
    states += n
    transitions += n
    for idx, p in bad:
        i = omap[idx]
        m, o = meta[i], obs[idx]
        if m["t"] == "concat":
            V.violation({"why": p["why"], "fmt": m["fmt"], "spelling": m["spelling"]},
                        {"shell": cases[i]["shell"], "files": cases[i]["files"], "together": o["out"][:6], "alone": [a[:4] for a in o["alone"]],
                         "exit": o["exit"], "stderr": (res[i].get("files") or {}).get("tog.err", "")[:400]})
        elif m["t"] in ("files", "blocks"):
            V.violation({"why": p["why"], "fmt": m["fmt"], "source": m.get("source", "files"), "nfiles": len(m["files"])},
                        {"argv": (cases[i].get("argv") or [None])[1:], "shell": cases[i].get("shell"), "files": m["files"], "observed": o["out"][:6],
                         "endnr": o["endnr"], "exit": o["exit"], "stderr": res[i]["stderr"][:400]})
        else:
            V.violation({"why": p["why"], "verbs": [c["v"] + " " + c["o"] for c in m["cs"]] or m.get("stages"), "inter": m["inter"]},
                        {"shell": cases[i]["shell"], "input": m["s"], "then": o["out"], "piped": o["piped"]})
    import copy
    badset = {idx for idx, _ in bad}
    base = next((o for k, o in enumerate(obs) if k not in badset and o["t"] == "files" and len(o["out"]) >= 3), None)
    if base is None:
        st = {"ok": None, "why": "no conforming observation to corrupt"}
    else:
        cor = copy.deepcopy(base)
        for pair in cor["out"][2]:
            if pair[0] == "fnr":
                pair[1] = "9"
        sb, _ = b3.validate("ReaderObs", [cor, base])
        st = {"ok": [b[0] for b in sb] == [0]}
    cov["obs_selftest"] = st
    if st["ok"] is False:
        raise vlib.Inconclusive("observation self-test failed")
    nfiles = sum(1 for m in meta if m["t"] == "files")
    cov["samples"] += [{"argv": (cases[0].get("argv") or [None])[1:], "files": cases[0].get("files"), "out": obs[0]["out"][:3]},
                       {"chain_shell": cases[-1]["shell"], "then": obs[-1]["out"][:3]}]
    cov.update({
        "states": states, "transitions": transitions, "traces_validated_against_impl": len(obs), "evaluations": len(cases),
        "distinct_nontrivial": sum(1 for m in meta if (m["t"] == "files" and len(m["files"]) > 1) or (m["t"] == "chain" and m["s"])),
        "rule": "file lists (1..3 files of 0..3 records, differing headers) x formats x batch sizes; 13 kinds of source for the same "
                "bytes; every pair of %d composable verb configurations x streams plus seeded triples/quadruples, each run with `then` and "
                "as piped processes (DKVP / JSON Lines); non-trivial = several files or non-empty stream" % len(verbs),
        "concat_law_runs": n_concat, "concat_law_not_judged_file_rejected_alone": n_concat_skipped,
        "file_list_and_source_runs": nfiles, "chain_runs": len(cases) - nfiles, "exhaustive": False,
    })
    rc = V.finish()
    vlib.write_evidence(PROP, tier, seed, time.time() - t0, cov, [
        "chains are drawn from the deterministic, counter-free selecting verbs of VerbsSelect.tla (the verbs with a TLA+ definition)",
        "how FILENAME is spelled for each kind of source is a harness table ((stdin) for standard input, the path otherwise)",
        "zstd inputs are exercised only if a zstd binary is present; URLs are not exercised (no network)",
    ], len(V.violations))
    return rc


def replay(path):
    with open(path) as f:
        print(f.read())
    return 0
