"""C01 — every file format round-trips its own output and speaks the standard dialect.

Codec.tla defines, over an abstract byte alphabet (token = class of bytes the format rules tell apart), an encoder, an
independent decoder (RFC 4180 machine, IANA-TSV escapes, RFC 8259 strings, and the documented line formats) and the
documented representable domain of every format.  TLC proves on the specification that Decode(Encode(s)) = s over the
domain and that every legal spelling decodes alike (CodecMC), enumerates the cases (CodecGen); the rebuilt binary
writes every stream (fed as JSON), reads its own text back, rewrites it, and reads every legal spelling the
specification produces; CodecObs judges.  This file only renders tokens to bytes and back and spells mlr flags."""
import base64
import json
import os
import random
import shlex
import time
from concurrent.futures import ThreadPoolExecutor

import b3
import vlib

PROP = "C01"
FORMATS = ["csv", "tsv", "json", "dkvp", "nidx", "xtab", "pprint", "markdown", "csvlite"]

# ---- the representative of every token class (rendering only) ---------------------------------------------------
BASE = {"LF": "\n", "CR": "\r", "Q": '"', "BS": "\\", "TAB": "\t", "SP": " ", "HASH": "#", "U2": "é", "U4": "\U0001F600",
        "DASH": "-", "PIPE": "|", "PLUS": "+", "SLASH": "/", "C1": "\x01", "BSP": "\x08", "FF": "\x0c", "COMMA": ",",
        "COLON": ":", "EQ": "=", "LBRACE": "{", "RBRACE": "}", "LBRACK": "[", "RBRACK": "]", "BOM": "\ufeff",
        # white space that is NOT the separator space U+0020: no-break space, ideographic space, em space
        "NBSP": "\u00a0", "IDSP": "\u3000", "EMSP": "\u2003"}
SELF = "abcdefghijklmnopqrstuvwxyz0123456789ABCDEF"
NAMED = {
    "csv": ["NBSP", "IDSP", "EMSP", "FS", "Q", "CR", "LF", "SP", "BS", "TAB", "HASH", "U2", "U4", "BOM"],
    "tsv": ["NBSP", "IDSP", "EMSP", "TAB", "LF", "CR", "BS", "Q", "SP", "U2", "U4", "HASH"],
    "json": ["Q", "BS", "LF", "CR", "TAB", "C1", "BSP", "FF", "SLASH", "U2", "U4", "COMMA", "COLON", "LBRACE", "RBRACE",
             "LBRACK", "RBRACK", "SP"],
    "dkvp": ["NBSP", "IDSP", "EMSP", "FS", "PS", "LF", "CR", "Q", "SP", "BS", "TAB", "HASH", "U2", "U4"],
    "nidx": ["NBSP", "IDSP", "EMSP", "FS", "LF", "CR", "Q", "BS", "TAB", "HASH", "U2", "U4", "EQ", "COMMA", "SP"],
    "xtab": ["NBSP", "IDSP", "EMSP", "PS", "LF", "CR", "Q", "BS", "TAB", "HASH", "U2", "U4", "EQ", "COMMA"],
    "pprint": ["NBSP", "IDSP", "EMSP", "FS", "Q", "BS", "HASH", "U2", "U4", "DASH", "PIPE", "PLUS", "EQ", "COMMA", "LF", "CR", "TAB"],
    "markdown": ["NBSP", "IDSP", "EMSP", "FS", "Q", "BS", "HASH", "U2", "U4", "DASH", "PIPE", "COLON", "LF", "CR", "TAB"],
    "csvlite": ["NBSP", "IDSP", "EMSP", "FS", "Q", "CR", "LF", "SP", "BS", "TAB", "HASH", "U2", "U4", "BOM"],
}
# the separators in use: (FS, PS) per format and variant
SEPS = {
    ("csv", "semi"): (";", None), ("csv", "tabfs"): ("\t", None), ("csv", None): (",", None),
    ("dkvp", "semi"): (";", ":"), ("dkvp", None): (",", "="),
    ("nidx", "comma"): (",", None), ("nidx", None): (" ", None),
    ("xtab", "wideps"): (None, "\u2192"), ("xtab", None): (None, " "), ("pprint", None): (" ", None), ("markdown", None): (" ", None),
    ("csvlite", "semi"): (";", None), ("csvlite", None): (",", None),
    ("tsv", None): (None, None), ("json", None): (None, None),
}
# how each variant is spelled on the mlr command line: (writer flags, reader flags)
FLAGS = {
    ("csv", "default"): (["--ocsv"], ["--icsv"]),
    ("csv", "quoteall"): (["--ocsv", "--quote-all"], ["--icsv"]),
    ("csv", "crlf"): (["--ocsv", "--ors", "crlf"], ["--icsv"]),
    ("csv", "semi"): (["--ocsv", "--ofs", ";"], ["--icsv", "--ifs", ";"]),
    ("csv", "tabfs"): (["--ocsv", "--ofs", "tab"], ["--icsv", "--ifs", "tab"]),
    ("csv", "headerless"): (["--ocsv", "--headerless-csv-output"], ["--icsv", "--implicit-csv-header"]),
    ("csv", "ragged"): (["--ocsv"], ["--icsv", "--allow-ragged-csv-input"]),
    ("tsv", "default"): (["--otsv"], ["--itsv"]),
    ("tsv", "crlf"): (["--otsv", "--ors", "crlf"], ["--itsv"]),
    ("tsv", "headerless"): (["--otsv", "--headerless-tsv-output"], ["--itsv", "--implicit-tsv-header"]),
    ("json", "default"): (["--ojson"], ["--ijson"]),
    ("json", "jsonl"): (["--ojsonl"], ["--ijsonl"]),
    ("json", "nowrap"): (["--ojson", "--no-jlistwrap"], ["--ijson"]),
    ("json", "oneline"): (["--ojson", "--no-jvstack"], ["--ijson"]),
    ("dkvp", "default"): (["--odkvp"], ["--idkvp"]),
    ("dkvp", "semi"): (["--odkvp", "--ofs", ";", "--ops", ":"], ["--idkvp", "--ifs", ";", "--ips", ":"]),
    ("nidx", "default"): (["--onidx"], ["--inidx"]),
    ("nidx", "comma"): (["--onidx", "--ofs", "comma"], ["--inidx", "--ifs", "comma"]),
    ("xtab", "default"): (["--oxtab"], ["--ixtab"]),
    ("xtab", "wideps"): (["--oxtab", "--ops", "\u2192"], ["--ixtab", "--ips", "\u2192"]),
    ("pprint", "default"): (["--opprint"], ["--ipprint"]),
    ("pprint", "barred"): (["--opprint", "--barred"], ["--ipprint", "--barred-input"]),
    ("pprint", "right"): (["--opprint", "--right"], ["--ipprint"]),
    ("markdown", "default"): (["--omd"], ["--imd"]),
    ("csvlite", "default"): (["--ocsvlite"], ["--icsvlite"]),
    ("csvlite", "semi"): (["--ocsvlite", "--ofs", ";"], ["--icsvlite", "--ifs", ";"]),
}
_tables = {}


def table(f, v):
    """token -> text and text -> token for one format variant (must be one-to-one)."""
    if (f, v) in _tables:
        return _tables[(f, v)]
    fs, ps = SEPS.get((f, v)) or SEPS[(f, None)]
    fwd = {c: c for c in SELF}
    for t in NAMED[f]:
        if t == "FS":
            fwd[t] = fs
        elif t == "PS":
            fwd[t] = ps
        else:
            fwd[t] = BASE[t]
    inv = {}
    for t, s in fwd.items():
        if s in inv:
            # the separator in use takes the place of the neutral class with the same byte
            keep = t if t in ("FS", "PS") else inv[s]
            inv[s] = keep
        else:
            inv[s] = t
    for t in list(fwd):
        if inv[fwd[t]] != t:
            del fwd[t]
    _tables[(f, v)] = (fwd, inv)
    return fwd, inv


LONG_CHAR = "b"          # the letter a long-run token "L<n>" (CodecCases.LTok) is made of
LONG_MIN = 64


def is_long(t):
    return len(t) > 1 and t[0] == "L" and t[1:].isdigit()


def render(tokens, f, v):
    fwd, _ = table(f, v)
    return "".join(LONG_CHAR * int(t[1:]) if is_long(t) else fwd[t] for t in tokens)


def tokenize(text, f, v):
    _, inv = table(f, v)
    out, i = [], 0
    while i < len(text):
        ch = text[i]
        if ch == LONG_CHAR:
            j = i
            while j < len(text) and text[j] == LONG_CHAR:
                j += 1
            if j - i >= LONG_MIN:            # a run of the long-cell letter is read back as the one token it was written from
                out.append("L%d" % (j - i))
                i = j
                continue
        out.append(inv.get(ch) or ("?%x" % ord(ch)))
        i += 1
    return out


def json_input(stream, f, v):
    """The stream as JSON Lines: the neutral way of getting arbitrary cells into mlr."""
    out = []
    for rec in stream:
        out.append("{" + ", ".join(json.dumps(render(k, f, v), ensure_ascii=False) + ": " + json.dumps(render(val, f, v), ensure_ascii=False)
                                   for k, val in rec) + "}\n")
    return "".join(out)


def parse_back(text, f, v):
    """JSON Lines written by mlr --ojsonl --jvquoteall -> records of token lists (splitting and decoding only)."""
    recs = []
    for line in text.split("\n"):
        if line.strip() == "":
            continue
        pairs = json.loads(line, object_pairs_hook=list)
        rec = []
        for k, val in pairs:
            if not isinstance(val, str):
                val = "\x00" + json.dumps(val)          # not a string: cannot be equal to any cell
            rec.append([tokenize(k, f, v), tokenize(val, f, v)])
        recs.append(rec)
    return recs


def b64(s):
    return base64.b64encode(s.encode("utf-8", "surrogateescape")).decode()


def unb64(s):
    return base64.b64decode(s or "").decode("utf-8", "surrogateescape")


def q(argv):
    return " ".join(shlex.quote(a) for a in argv)


def make_run(mlr, x):
    f, v = x["f"], x["v"]
    w, r = FLAGS[(f, v)]
    if x["k"] == "rt":
        sh = ("%s > out1 2> err1; echo $? > rc; %s > back 2> err2; echo $? >> rc; %s > out2 2> err3; echo $? >> rc" % (
            q([mlr, "--ijsonl"] + w + ["cat", "in.jsonl"]),
            q([mlr] + r + ["--ojsonl", "--jvquoteall", "cat", "out1"]),
            q([mlr] + r + w + ["cat", "out1"])))
        return {"shell": sh, "files_b64": {"in.jsonl": b64(json_input(x["s"], f, v))}, "collect": True, "b64": True,
                "timeout_ms": 20000}
    return {"argv": [mlr] + r + ["--ojsonl", "--jvquoteall", "cat", "in.txt"], "files_b64": {"in.txt": b64(render(x["text"], f, v))},
            "b64": True, "timeout_ms": 10000}


def observe(x, r):
    f, v = x["f"], x["v"]
    o = {"k": x["k"], "f": f, "v": v, "fam": x["fam"], "st": x["st"], "s": x["s"], "text": x["text"], "back": [], "idem": True,
         "ok": False}
    if r.get("timed_out"):
        return o, "timeout"
    try:
        if x["k"] == "rt":
            files = r.get("files_b64") or {}
            rcs = unb64(files.get("rc")).split()
            o["ok"] = rcs == ["0", "0", "0"]
            out1 = unb64(files.get("out1"))
            o["text"] = tokenize(out1, f, v)
            if o["ok"]:
                o["back"] = parse_back(unb64(files.get("back")), f, v)
                o["idem"] = files.get("out2") == files.get("out1")
            err = "".join(unb64(files.get(n)) for n in ("err1", "err2", "err3"))[:300]
        else:
            o["ok"] = r["exit"] == 0
            if o["ok"]:
                o["back"] = parse_back(unb64(r.get("stdout_b64")), f, v)
            err = r["stderr"][:300]
    except (ValueError, KeyError) as e:          # the observation channel itself (JSON Lines) is unreadable
        o["ok"] = False
        err = "unreadable observation: %s" % e
    return o, err


def validate(obs, chunk=None, threads=None):
    """b3.validate, also returning the diagnostic lines CodecObs prints."""
    threads = threads or max(1, min(8, int(os.environ.get("VERIF_JOBS", vlib.NPROC))))
    chunk = chunk or max(400, min(3000, -(-len(obs) // threads)))
    cfg = b3.cfg_text({"ObsFile": '"obs.ndjson"'}, invariants=["Conforms"])
    parts = [(s, obs[s:s + chunk]) for s in range(0, len(obs), chunk)]

    def one(p):
        start, part = p
        text = "".join(json.dumps(o) + "\n" for o in part)
        r = vlib.tlc("CodecObs", cfg="gen.cfg", extra_files={"gen.cfg": cfg, "obs.ndjson": text}, workers=1, timeout=3000)
        if r.error or r.violated:
            raise vlib.Inconclusive("CodecObs failed: %s\n%s" % (r.error or r.violated, r.out[-3000:]))
        if r.distinct != len(part):
            raise vlib.Inconclusive("CodecObs visited %d of %d observations" % (r.distinct, len(part)))
        bad = [(start + p_["line"] - 1, p_) for p_ in r.printed if isinstance(p_, dict) and "line" in p_]
        diag = [(start + p_["dline"] - 1, p_) for p_ in r.printed if isinstance(p_, dict) and "dline" in p_]
        return bad, diag, r.distinct
    bad, diag, states = [], [], 0
    with ThreadPoolExecutor(threads) as ex:
        for b, d, n in ex.map(one, parts):
            bad.extend(b)
            diag.extend(d)
            states += n
    bad.sort(key=lambda z: z[0])
    return bad, diag, states


PLAIN = set(SELF)
# lengths of the long cells: windows below the multiples of 4096 (so that, with the few bytes of key, separators and line
# ending around them, the lines' lengths straddle 4 KiB, 8 KiB and 64 KiB)
LONG_N = {"quick": "{%s}" % ", ".join(str(n) for n in list(range(4078, 4099)) + list(range(8176, 8195))),
          "thorough": "{%s}" % ", ".join(str(n) for n in list(range(4060, 4101)) + list(range(8150, 8197)) + list(range(65500, 65541)))}


def features(x, p):
    """What names a violation: format, variant, which judgement failed, where the probe sits and which token classes
    the offending record holds (no verdict is taken here)."""
    s = x["s"]
    rec = p.get("rec", 0)
    recs = [s[rec - 1]] if 1 <= rec <= len(s) else s
    keys = [c for r in recs for c in (kv[0] for kv in r)]
    vals = [c for r in recs for c in (kv[1] for kv in r)]
    pos = {"K": "key", "V": "value", "X": "special"}[x["fam"][0]]
    cells = keys if pos == "key" else vals if pos == "value" else keys + vals
    toks = {t for c in cells for t in c}
    special = sorted(toks - PLAIN)
    dash = lambda c: all(t in ("DASH", "FS") for t in c)
    key = {"fmt": x["f"], "v": x["v"], "kind": x["k"], "why": "+".join(sorted(p["whys"])), "pos": pos,
           "crlf_pair": any(c[i] == "CR" and c[i + 1] == "LF" for c in cells for i in range(len(c) - 1)),
           "has_cr": "CR" in toks, "has_lf": "LF" in toks, "has_tab": "TAB" in toks,
           "tsv_escaped": bool(toks & {"TAB", "LF", "CR", "BS"}),
           "dash_row": any(all(dash(kv[1]) for kv in r) or all(dash(kv[0]) for kv in r) for r in recs)}
    if x["k"] == "tx":
        key["style"] = x["st"]
    return key


def run(tier, seed):
    t0 = time.time()
    rnd = random.Random(seed)
    V = vlib.Verdicts(PROP)
    mlr = vlib.build_mlr()
    thorough = tier == "thorough"
    cov = {"tlc_runs": [], "samples": []}
    maxtok = 3 if thorough else 2
    states = transitions = 0

    # ---- the laws on the specification and the cases: one TLC pass per format (CodecGen checks Laws and prints) ---
    def per_format(f):
        consts = {"MaxTok": maxtok, "F": '"%s"' % f, "LongN": LONG_N["thorough" if thorough else "quick"]}
        cfg = b3.cfg_text(consts, invariants=["Laws", "Emit"])
        r = vlib.tlc("CodecGen", cfg="gen.cfg", extra_files={"gen.cfg": cfg}, workers=1, timeout=3000)
        if r.error:
            raise vlib.Inconclusive("CodecGen failed for %s: %s\n%s" % (f, r.error, r.out[-2500:]))
        return f, r
    cases = []
    with ThreadPoolExecutor(max(1, min(len(FORMATS), int(os.environ.get("VERIF_JOBS", vlib.NPROC))))) as ex:
        for f, r in ex.map(per_format, FORMATS):
            cov["tlc_runs"].append({"module": "CodecGen (Laws of CodecMC + Emit)", "format": f, "MaxTok": maxtok,
                                    "distinct_states": r.distinct, "result": r.violated or "no error"})
            if r.violated:
                raise vlib.Inconclusive("Codec.tla violates a law of the property for %s: %s" % (f, r.violated))
            cs = [p for p in r.printed if isinstance(p, dict) and "fam" in p]
            if r.distinct != len(cs):
                raise vlib.Inconclusive("CodecGen printed %d of %d %s cases" % (len(cs), r.distinct, f))
            states += r.distinct
            transitions += r.generated
            cases.extend(cs)
    cases.sort(key=lambda x: json.dumps(x, sort_keys=True))
    total = len(cases)
    if not thorough:
        # quick: every wide/heterogeneous stream and every probe of at most one token; a seeded sample of the two-token probes
        keep = []
        for x in cases:
            small = x["fam"] in ("X", "XL") or max(len(c) for r in x["s"] for kv in r for c in kv) <= 1
            if x["k"] == "rt":
                if small or rnd.random() < 0.13:
                    keep.append(x)
            elif (small and x["st"] in ("c2", "c3", "t2", "t5", "j2", "j3")) or rnd.random() < 0.2:
                keep.append(x)
        cases = keep
    vlib.log("[c01] %d cases (%d in the space), %.0fs" % (len(cases), total, time.time() - t0))

    runs = [make_run(mlr, x) for x in cases]
    res = vlib.run_cases(runs)
    vlib.confirm_timeouts(runs, res)
    nproc = sum(3 if x["k"] == "rt" else 1 for x in cases)
    vlib.log("[c01] %d mlr processes done, %.0fs" % (nproc, time.time() - t0))
    obs, errs = [], []
    for x, r in zip(cases, res):
        o, err = observe(x, r)
        obs.append(o)
        errs.append(err)
    bad, diag, n = validate(obs)
    states += n
    transitions += n
    for idx, p in bad:
        x, o = cases[idx], obs[idx]
        if errs[idx] == "timeout":
            p = dict(p, whys=["hang"])
        V.violation(features(x, p),
                    {"classes": sorted({t for r in x["s"] for kv in r for c in kv for t in c} - PLAIN), "case": {k: x[k] for k in ("k", "f", "v", "fam", "st", "s", "text")}, "whys": p["whys"], "first_differing_record": p.get("rec"),
                     "input_text": render(x["text"], x["f"], x["v"]) if x["k"] == "tx" else json_input(x["s"], x["f"], x["v"]),
                     "real_text": render([t for t in o["text"] if not t.startswith("?")], x["f"], x["v"]) if x["k"] == "rt" else None,
                     "read_back": o["back"], "flags": FLAGS[(x["f"], x["v"])], "stderr": errs[idx]})
    dcount = {}
    for idx, p in diag:
        for d in p["diag"]:
            kk = "%s/%s:%s" % (cases[idx]["f"], cases[idx]["v"], d)
            dcount[kk] = dcount.get(kk, 0) + 1
    cov["diagnostics_not_verdicts"] = dcount

    # ---- non-vacuity: a corrupted observation must be reported --------------------------------------------------------
    def corrupt(a):
        a["back"] = a["back"][:-1] + [a["back"][-1][:-1] + [[a["back"][-1][-1][0], a["back"][-1][-1][1] + ["a"]]]]
    badset = {i for i, _ in bad}
    good_rt = [o for i, o in enumerate(obs) if i not in badset and o["k"] == "rt" and o["back"] and o["back"][-1]]
    good_tx = [o for i, o in enumerate(obs) if i not in badset and o["k"] == "tx" and o["back"] and o["back"][-1]]
    st = {}
    for name, pool in (("rt", good_rt), ("tx", good_tx)):
        if not pool:            # a tree that breaks the property may leave none: the violations are the verdict then
            st[name] = {"ok": None, "why": "no conforming %s observation to corrupt" % name}
            continue
        a = json.loads(json.dumps(pool[len(pool) // 2]))
        corrupt(a)
        b, _, _ = validate([a, pool[len(pool) // 2]])
        st[name] = {"ok": [z[0] for z in b] == [0], "reported": [z[0] for z in b]}
    c0 = next((o for o in good_rt if o["f"] == "csv" and o["text"]), None)
    if c0 is None:
        st["std"] = {"ok": None, "why": "no conforming CSV observation to corrupt"}
    else:
        c = json.loads(json.dumps(c0))
        c["text"] = c["text"][:-1] + ["Q"]         # the standard reader must object to a mangled text
        b, _, _ = validate([c])
        st["std"] = {"ok": [z[0] for z in b] == [0] and "std" in b[0][1]["whys"]}
    cov["obs_selftest"] = st
    if any(z["ok"] is False for z in st.values()):
        raise vlib.Inconclusive("observation self-test failed: %r" % st)

    nontrivial = {json.dumps([o["f"], o["v"], o["text"]]) for o in obs
                  if any(t not in PLAIN and t not in ("FS", "PS", "LF") for kv in (kv for r in o["s"] for kv in r) for c in kv for t in c)}
    per = {}
    for x in cases:
        kk = "%s/%s/%s" % (x["k"], x["f"], x["v"])
        per[kk] = per.get(kk, 0) + 1
    for i in (len(cases) // 7, len(cases) // 2, len(cases) - 5):
        cov["samples"].append({"case": {k: cases[i][k] for k in ("k", "f", "v", "fam", "st", "s")}, "flags": FLAGS[(cases[i]["f"], cases[i]["v"])],
                               "text": obs[i]["text"][:60], "read_back": obs[i]["back"]})
    cov.update({
        "states": states, "transitions": transitions, "traces_validated_against_impl": len(cases), "evaluations": nproc,
        "distinct_nontrivial": len(nontrivial),
        "rule": "CodecCases.tla: %d formats, %d format variants; probe cells = every token sequence of length <= %d over the "
                "format's class alphabet, in the positions only/first/last key, only value, first/last field x first/last record, "
                "plus 13-field and heterogeneous streams; for CSV/TSV/JSON also every such stream in each of the listed legal "
                "spellings; restricted to the documented representable domain (%d cases in the space, %d run); "
                "non-trivial = a cell holds a class other than letters/digits; distinct by format variant and text"
                % (len(FORMATS), len(FLAGS), maxtok, total, len(cases)),
        "exhaustive": bool(thorough), "cases_per_variant": per, "mlr_processes": nproc,
    })
    rc = V.finish()
    vlib.write_evidence(PROP, tier, seed, time.time() - t0, cov, [
        "one representative byte string per class (a, separators in use, \", \\, CR, LF, TAB, space, #, e-acute (2 bytes), an emoji "
        "(4 bytes, double width), 0x01, 0x08, digits): a class stands for its members; invalid UTF-8 is outside the alphabet",
        "cells of <= %d tokens; streams of 1-2 records x 1-2 fields plus 13-field and 2-4-record heterogeneous streams" % maxtok,
        "the representable domain is Codec.tla's Representable, written from the format documentation; streams outside it get no verdict",
        "cells enter mlr as JSON strings (--ijsonl) and are observed as JSON Lines (--ojsonl --jvquoteall) parsed by Python's json; "
        "values are strings (number formatting: C03/C06); nested values, YAML, DKVPX, DCF, recutils, ASV/USV, multi-character "
        "separators, --lazy-quotes, --csv-trim-leading-space, comments flags and duplicate header names are not covered",
        "quick tier: every probe of <= 1 token and every wide/heterogeneous stream, a seeded 13-20% of the two-token probes; "
        "thorough: the whole space, with three-token probes over the six core classes of each format",
    ], len(V.violations))
    return rc


def replay(path):
    """Runs the stored case again on the rebuilt binary and lets TLC judge it again."""
    with open(path) as f:
        v = json.load(f)
    x = v["detail"]["case"]
    x.setdefault("text", [])
    mlr = vlib.build_mlr()
    run_ = make_run(mlr, x)
    r = vlib.run_cases([run_])[0]
    o, err = observe(x, r)
    bad, _, _ = validate([o])
    print(json.dumps({"key": v["key"], "case": x, "command": run_.get("shell") or run_.get("argv"),
                      "real_text": render([t for t in o["text"] if not t.startswith("?")], x["f"], x["v"]),
                      "read_back": o["back"], "idempotent": o["idem"], "stderr": err,
                      "verdict": bad[0][1]["whys"] if bad else "conforms"}, indent=1, ensure_ascii=False))
    return 1 if bad else 0
