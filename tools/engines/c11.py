"""C11 — record-selecting verbs only select.

VerbsSelect.tla defines every selecting verb over the whole input stream (from reference-verbs.md); TLC checks the
laws of the property on the definitions (VerbsSelectMC), enumerates the bounded case space verb configuration x stream
(VerbsSelectGen), the rebuilt binary runs every case and VerbsSelectObs judges each output."""
import json
import random
import time

import b3
import vlib

PROP = "C11"


def argv_of(c, seed):
    v, n, g, o = c["v"], c["n"], list(c["g"]), c["o"]
    gl = ["-g", ",".join(g)] if g else []
    if v == "cat":
        return ["cat"] + ({"": [], "-n": ["-n"], "-N": ["-N", "idx"]}[o]) + gl
    if v in ("nothing", "tac", "group-like", "skip-trivial-records", "shuffle", "bootstrap"):
        return [v]
    if v == "head":
        return ["head", "-n", str(n)] + gl
    if v == "tail":
        return ["tail", "-n", ("+" if o == "+" else "") + str(n)] + gl
    if v == "decimate":
        return ["decimate", "-n", str(n), o] + gl
    if v == "filter":
        return ["filter", o]
    if v == "filter-x":
        return ["filter", "-x", o]
    if v == "having-fields":
        return ["having-fields", o, ",".join(g)]
    if v == "having-fields-re":
        return ["having-fields", o, g[0]]
    if v == "grep":
        return ["grep"] + list(o) + ["".join(g)]
    if v == "group-by":
        return ["group-by", ",".join(g)]
    if v == "uniq-a":
        return ["uniq", "-a"] + ([o] if o else [])
    if v == "sample":
        return ["sample", "-k", str(n)] + gl
    raise ValueError(v)


def run(tier, seed):
    t0 = time.time()
    rnd = random.Random(seed)
    V = vlib.Verdicts(PROP)
    mlr = vlib.build_mlr()
    thorough = tier == "thorough"
    cov = {"tlc_runs": [], "samples": []}
    maxlen = 4 if thorough else 3

    laws = b3.check_laws("VerbsSelectMC", {"MaxLen": maxlen})
    cov["tlc_runs"].append({"module": "VerbsSelectMC", "MaxLen": maxlen, "distinct_states": laws.distinct,
                            "result": laws.violated or "no error"})
    if laws.violated:
        raise vlib.Inconclusive("the specification itself violates a law of the property: %s" % laws.violated)
    states, transitions = laws.distinct, laws.generated

    cases, g = b3.gen_cases("VerbsSelectGen", {"MaxLen": maxlen}, timeout=6000)
    states += g.distinct
    transitions += g.generated
    runs = []
    for k, x in enumerate(cases):
        c, s = x["c"], x["s"]
        flags = ["--seed", str(seed * 7919 + k % 13)] if c["v"] in ("shuffle", "bootstrap", "sample") else []
        if k % 5 == 0:
            flags += ["--records-per-batch", "1"]
        elif k % 5 == 1:
            flags += ["--records-per-batch", "2"]
        env = {}
        if x.get("slow"):      # one record at a time, with a pause after each (VerbsSelectCases.SlowStreams)
            flags = (["--seed", str(seed * 7919 + k % 13)] if c["v"] in ("shuffle", "bootstrap", "sample") else []) + ["--records-per-batch", "1"]
            env = {"MLR_VERIF_DELAY": "lines:lines.sendEnd:8000"}
        runs.append({"argv": [mlr, "--ifs", ";", "--ofs", ";"] + flags + argv_of(c, seed), "stdin": b3.dkvp(s, ";"),
                     "timeout_ms": 10000, "env": env})      # ";" so that values may contain commas (VerbsSelectCases.RUsep)
    res = vlib.run_cases(runs)
    vlib.confirm_timeouts(runs, res)
    obs = []
    for x, r in zip(cases, res):
        obs.append({"c": x["c"], "s": x["s"], "out": b3.parse_dkvp(r["stdout"], ";"),
                    "exit": -2 if r["timed_out"] else r["exit"]})
    bad, n = b3.validate("VerbsSelectObs", obs)
    states += n
    transitions += n
    for idx, _ in bad:
        c = cases[idx]["c"]
        V.violation({"verb": c["v"], "o": c["o"], "grouped": bool(c["g"])},
                    {"argv": runs[idx]["argv"][1:], "input": cases[idx]["s"], "observed": obs[idx]["out"],
                     "exit": obs[idx]["exit"], "stderr": res[idx]["stderr"][:500]})
    st = b3.selftest_corruption("VerbsSelectObs", [o for o in obs if o["c"]["v"] in ("tac", "cat", "group-like")])
    cov["obs_selftest"] = st
    if st["ok"] is False:
        raise vlib.Inconclusive("observation self-test failed: %r" % st)
    nontrivial = {json.dumps(o, sort_keys=True) for o in obs if o["out"] != o["s"] and o["out"]}
    cov["samples"] += [{"argv": runs[i]["argv"][1:], "input": cases[i]["s"], "output": obs[i]["out"]}
                       for i in (len(runs) // 7, len(runs) // 2, len(runs) - 5)]
    cov.update({
        "states": states, "transitions": transitions, "traces_validated_against_impl": len(runs),
        "evaluations": len(runs), "distinct_nontrivial": len(nontrivial),
        "rule": "every (verb configuration, stream) of VerbsSelectCases.tla: %d configurations x all streams of <= %d records "
                "over 6 record shapes; non-trivial = output non-empty and different from the input; distinct by case and output"
                % (len({json.dumps(x["c"], sort_keys=True) for x in cases}), maxlen),
        "exhaustive": True,
        "verb_configurations": len({json.dumps(x["c"], sort_keys=True) for x in cases}),
    })
    rc = V.finish()
    vlib.write_evidence(PROP, tier, seed, time.time() - t0, cov, [
        "streams are bounded (<= %d records over 6 record shapes with fields a, b); counts k in {-2..3, 5}" % maxlen,
        "grep is modelled for literal patterns (texts as sequences of one-character strings), the regex modes of having-fields for patterns tabulated with the names they match",
        "the expectations are VerbsSelect.tla's, written from reference-verbs.md; the harness only spells verb options "
        "and splits DKVP lines",
    ], len(V.violations))
    return rc


def replay(path):
    with open(path) as f:
        v = json.load(f)
    print(json.dumps(v, indent=1))
    return 0
