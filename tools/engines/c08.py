"""C08 — absent and empty values obey the documented null-data algebra.

NullAlgebra.tla is the rule table (the reference's printed tables for +, &&, ||; the null-handling rules; the
function help texts). The whole operator x kind x kind matrix is finite: NullAlgebraGen emits the sets, the rebuilt
binary evaluates every cell (one `mlr -n put` per operator), NullAlgebraObs judges every cell and the symmetry of
commutative operators; unconstrained cells must merely not crash."""
import json
import time

import b3
import vlib

PROP = "C08"

# how an operand of each kind is spelled in the DSL, and its text (rendering table, no semantics)
OPERAND = {
    "int": ("7", "7"), "float": ("2.5", "2.5"), "boolean": ("true", "true"), "empty": ('""', ""),
    "string": ('"abc"', "abc"), "array": ("[1, 2]", ""), "map": ('{"a": 1}', ""), "funct": ("f", ""),
    "error": ("(1 + true)", ""), "absent": ("@nosuch", ""),
}
EXTRA_BOOL_FALSE = ("false", "false")
PRELUDE = 'f = func(a) {return a};'
# Ordinary statements about OTHER empty / absent values, run before the probes in a second pass over the binary matrix: what
# a program did to its own variables (assigning empty values, indexing into them, unsetting, concatenating) does not change
# what the operators give afterwards -- the rule table of NullAlgebra.tla has no history in it.
HISTORY = ('e = ""; e[1] = 1; @h = ""; @h["k"] = 2; m = {}; m["x"] = ""; m["x"][1] = 3; n = @nosuch; unset e; '
           'a = [""]; a[1][1] = 4; s = "" . ""; t = s; t[1] = 9; u = ""; v = u; v["k"] = 1; @w = s; @w[2] = 5; '
           'z = asserting_empty(""); y = "" ?? "d"; unset @h;')


def expr(op, a, b):
    if op in ("min", "max"):
        return "%s(%s, %s)" % (op, a, b)
    return "(%s %s %s)" % (a, op, b)


def show(e):
    # typeof and, for scalars, the text of the value; nothing is assigned (an absent right-hand side would be skipped)
    return ('typeof(%s) . "|" . ((is_string(%s) || is_numeric(%s) || is_boolean(%s)) ? ("" . %s) : "")' % (e, e, e, e, e))


def binary_program(op, kinds, vals, history=False):
    stmts = [PRELUDE] + ([HISTORY] if history else [])
    for i, (ea, _) in enumerate(vals):
        for j, (eb, _) in enumerate(vals):
            stmts.append('print "cell|%d|%d|" . %s;' % (i, j, show(expr(op, ea, eb))))
    return "end {" + "\n".join(stmts) + "}"


TYPE_NAMES = {"boolean": "boolean", "bool": "boolean", "int": "int", "float": "float", "empty": "empty", "string": "string",
              "array": "array", "map": "map", "funct": "funct", "error": "error", "absent": "absent"}


def parse_cells(stdout):
    cells = {}
    for line in stdout.split("\n"):
        if line.startswith("cell|"):
            parts = line.split("|", 4)
            if len(parts) == 5:
                cells[(int(parts[1]), int(parts[2]))] = {"k": TYPE_NAMES.get(parts[3], parts[3]), "v": parts[4]}
    return cells


LVALUES = {
    # kind: (program template with RHS, how "changed/created" is read from the output)
    "field": ('$new = RHS', "key:new"),
    "indirect-field": ('$["new"] = RHS', "key:new"),
    "positional-name": ('$[[1]] = RHS', "firstkey-not:a"),
    "positional-value": ('$[[[1]]] = RHS', "value-not:a:1"),
    "full-srec-element": ('$*["new"] = RHS', "key:new"),
    "oosvar": ('@new = RHS; $probe = is_present(@new)', "probe"),
    "indirect-oosvar": ('@["new"] = RHS; $probe = is_present(@new)', "probe"),
    "oosvar-element": ('@m["k"] = RHS; $probe = is_present(@m["k"])', "probe"),
    "local-untyped": ('x = RHS; $probe = is_present(x)', "probe"),
    "local-var": ('var x = RHS; $probe = is_present(x)', "probe"),
    "map-element": ('m = {}; m["k"] = RHS; $probe = haskey(m, "k")', "probe"),
}
COMPOUND = [("+=", "oosvar"), ("*=", "oosvar"), (".=", "oosvar"),
            ("-=", "oosvar"), ("|=", "oosvar"), ("&=", "oosvar"), ("^=", "oosvar"), ("//=", "oosvar"), ("**=", "oosvar")]
RHS = {"absent": "@nosuch", "empty": '""', "int": "7"}


def run(tier, seed):
    t0 = time.time()
    V = vlib.Verdicts(PROP)
    mlr = vlib.build_mlr()
    cov = {"tlc_runs": [], "samples": []}
    laws = b3.check_laws("NullAlgebraMC", {}, invariants=("AccumulationIdentity", "PredicatesConsistent", "RulesSymmetric"))
    if laws.violated:
        raise vlib.Inconclusive("NullAlgebra.tla violates its own law %s" % laws.violated)
    states, transitions = laws.distinct, laws.generated
    cov["tlc_runs"].append({"module": "NullAlgebraMC", "result": "no error", "laws": ["AccumulationIdentity", "PredicatesConsistent", "RulesSymmetric"]})
    space, g = b3.gen_cases("NullAlgebraGen", {})
    space = space[0]
    kinds = space["kinds"]
    vals = [OPERAND[k] for k in kinds] + [EXTRA_BOOL_FALSE]
    kinds_x = kinds + ["boolean"]
    valrecs = [{"k": k, "v": v[1]} for k, v in zip(kinds_x, vals)]

    # ---- binary matrix: one process per operator -----------------------------------------------
    cases = []
    passes = [(op, h) for h in (False, True) for op in space["binops"]]      # second pass: after HISTORY
    for op, h in passes:
        cases.append({"argv": [mlr, "-n", "put", binary_program(op, kinds_x, vals, h)], "timeout_ms": 20000})
    res = vlib.run_cases(cases)
    obs = []
    evaluations = 0
    crashed_cells = []
    for (op, hist), r in zip(passes, res):
        cells = parse_cells(r["stdout"])
        n = len(vals)
        if hist and (r["exit"] != 0 or len(cells) != n * n):
            # the same matrix ran through without the preceding statements (first pass): they changed the outcome
            plain = next(rr for (o2, h2), rr in zip(passes, res) if o2 == op and not h2)
            if plain["exit"] == 0:
                V.violation({"why": "history-changes-outcome", "op": op},
                            {"after": HISTORY, "exit": r["exit"], "stderr": r["stderr"][:400], "cells_printed": len(cells)})
            continue
        if r["exit"] != 0 or len(cells) != n * n:
            # some cell killed the process: evaluate the cells one by one to find which
            singles = []
            idx = []
            for i, (ea, _) in enumerate(vals):
                for j, (eb, _) in enumerate(vals):
                    singles.append({"argv": [mlr, "-n", "put", 'end {%s print "cell|%d|%d|" . %s;}' % (PRELUDE, i, j, show(expr(op, ea, eb)))],
                                    "timeout_ms": 10000})
                    idx.append((i, j))
            sres = vlib.run_cases(singles)
            cells = {}
            for (i, j), sr in zip(idx, sres):
                c = parse_cells(sr["stdout"])
                if (i, j) in c:
                    cells[(i, j)] = c[(i, j)]
                else:
                    crash = ("panic" in sr["stderr"]) or ("goroutine" in sr["stderr"]) or sr["timed_out"]
                    cells[(i, j)] = {"k": "fatal", "v": ""}
                    crashed_cells.append((op, kinds_x[i], kinds_x[j], crash, sr["stderr"][:300]))
        M = [[cells[(i, j)] for j in range(n)] for i in range(n)]
        evaluations += n * n
        obs.append({"t": "binary", "op": op, "vals": valrecs, "M": M, "after_history": hist})
    for op, ka, kb, crash, err in crashed_cells:
        if crash:
            V.violation({"why": "crash", "op": op, "a": ka, "b": kb}, {"stderr": err})

    # ---- unary -------------------------------------------------------------------------------
    ucases, umeta = [], []
    for fn in space["unary"]:
        stmts = [PRELUDE]
        for i, (ea, _) in enumerate(vals):
            e = "(%s%s)" % (fn, ea) if fn in ("-", "+", "~", "!") else "%s(%s)" % (fn, ea)
            stmts.append('print "cell|%d|0|" . %s;' % (i, show(e)))
        ucases.append({"argv": [mlr, "-n", "put", "end {" + "\n".join(stmts) + "}"], "timeout_ms": 20000})
        umeta.append(fn)
    ures = vlib.run_cases(ucases)
    for fn, r in zip(umeta, ures):
        cells = parse_cells(r["stdout"])
        for i in range(len(vals)):
            evaluations += 1
            if (i, 0) in cells:
                obs.append({"t": "unary", "f": fn, "a": valrecs[i], "r": cells[(i, 0)]})
            else:
                crash = "panic" in r["stderr"] or "goroutine " in r["stderr"]
                if crash:
                    V.violation({"why": "crash", "op": fn, "a": kinds_x[i]}, {"stderr": r["stderr"][:500]})
                obs.append({"t": "unary", "f": fn, "a": valrecs[i], "r": {"k": "fatal", "v": ""}})

    # ---- predicates -----------------------------------------------------------------------------
    stmts = [PRELUDE]
    for p in space["preds"]:
        for i, (ea, _) in enumerate(vals):
            stmts.append('print "pred|%s|%d|" . %s(%s);' % (p, i, p, ea))
    pr = vlib.run_cases([{"argv": [mlr, "-n", "put", "end {" + "\n".join(stmts) + "}"], "timeout_ms": 20000}])[0]
    if pr["exit"] != 0:
        raise vlib.Inconclusive("predicate program failed: %s" % pr["stderr"][:500])
    for line in pr["stdout"].split("\n"):
        if line.startswith("pred|"):
            _, p, i, ans = line.split("|", 3)
            obs.append({"t": "pred", "p": p, "k": kinds_x[int(i)], "ans": ans})
            evaluations += 1

    # ---- assignments with an absent / empty / int right-hand side, every kind of left-hand side ----
    acases, ameta = [], []
    for lv in space["lvalues"]:
        if lv == "compound":
            continue
        tmpl, how = LVALUES[lv]
        for rk, rhs in RHS.items():
            prog = tmpl.replace("RHS", rhs)
            acases.append({"argv": [mlr, "--ojson", "put", prog], "stdin": "a=1,b=2\n", "timeout_ms": 10000})
            ameta.append((lv, rk, how, prog))
    for opn, _ in COMPOUND:
        for rk, rhs in RHS.items():
            prog = '@acc %s %s; $probe = is_present(@acc)' % (opn, rhs)
            acases.append({"argv": [mlr, "--ojson", "put", prog], "stdin": "a=1,b=2\n", "timeout_ms": 10000})
            ameta.append(("compound", rk, "probe", prog))
    ares = vlib.run_cases(acases)
    unsupported = []
    for (lv, rk, how, prog), r in zip(ameta, ares):
        evaluations += 1
        if r["exit"] != 0:
            if "panic" in r["stderr"] or "goroutine " in r["stderr"]:
                V.violation({"why": "crash", "lvalue": lv, "rhs": rk}, {"program": prog, "stderr": r["stderr"][:500]})
            elif "parse error" in r["stderr"]:
                raise vlib.Inconclusive("the harness spelled an assignment the parser rejects: %r: %s" % (prog, r["stderr"][:200]))
            elif rk == "absent":
                # an absent right-hand side must be skipped, not be an error
                V.violation({"why": "assignment of absent fails", "lvalue": lv}, {"program": prog, "stderr": r["stderr"][:500]})
            else:
                unsupported.append({"lvalue": lv, "rhs": rk, "program": prog, "stderr": r["stderr"][:200]})
            continue
        try:
            rec = json.loads(r["stdout"])[0]
        except Exception:
            raise vlib.Inconclusive("cannot parse output of %r: %r" % (prog, r["stdout"][:200]))
        keys = list(rec.keys())
        if how.startswith("key:"):
            changed = how[4:] in rec
        elif how.startswith("firstkey-not:"):
            changed = keys[0] != how.split(":")[1]
        elif how.startswith("value-not:"):
            _, k, v = how.split(":")
            changed = str(rec.get(k)) != v
        else:
            changed = rec.get("probe") is True
        obs.append({"t": "assign", "lv": lv, "rhs": rk, "changed": bool(changed), "_prog": prog})
    cov["unsupported_assignment_forms"] = unsupported

    # ---- judgement ---------------------------------------------------------------------------------
    clean = [{k: v for k, v in o.items() if not k.startswith("_")} for o in obs]
    bad, n = b3.validate("NullAlgebraObs", clean)
    states += n
    transitions += n
    bad_lines = {}
    for idx, p in bad:
        bad_lines.setdefault(idx, []).append(p)
    for idx, plist in sorted(bad_lines.items()):
        o = obs[idx]
        for p in plist:
            if o["t"] == "binary":
                i, j = p["i"] - 1, p["j"] - 1
                key = {"op": o["op"], "a": kinds_x[i], "b": kinds_x[j], "rule": p["rule"]}
                if o.get("after_history"):
                    key["after_history"] = True          # the same cell conforms without the preceding statements?
                detail = {"expression": expr(o["op"], vals[i][0], vals[j][0]), "result": o["M"][i][j], "after": HISTORY if o.get("after_history") else "",
                          "mirror": o["M"][j][i] if p["rule"] == "commutative-kind" else None}
            elif o["t"] == "unary":
                key = {"op": o["f"], "a": o["a"]["k"], "rule": p["rule"]}
                detail = {"result": o["r"]}
            elif o["t"] == "pred":
                key = {"op": o["p"], "a": o["k"], "rule": "predicate"}
                detail = {"answer": o["ans"]}
            else:
                key = {"lvalue": o["lv"], "rhs": o["rhs"], "rule": "assignment"}
                detail = {"program": o["_prog"], "changed": o["changed"]}
            V.violation(key, detail)
    # how many cells the rules decide
    dec, _ = b3.gen_cases("NullAlgebraObs", {"ObsFile": '"obs.ndjson"'}, invariant="Decided") if False else ([], None)
    import copy
    plus = [o for o in clean if o["t"] == "binary" and o["op"] == "+"][0]
    corrupt = copy.deepcopy(plus)
    corrupt["M"][kinds_x.index("int")][kinds_x.index("absent")] = {"k": "absent", "v": ""}   # 7 + absent "is" absent
    sbad, _ = b3.validate("NullAlgebraObs", [corrupt])
    st = {"ok": any(p_.get("rule") == "plus-table" for _, p_ in sbad), "reported": [p_ for _, p_ in sbad][:3]}
    cov["obs_selftest"] = st
    if st["ok"] is False:
        raise vlib.Inconclusive("observation self-test failed: %r" % st)
    nb = len(space["binops"])
    cov["samples"] += [
        {"cell": "7 + @nosuch", "result": [o for o in obs if o["t"] == "binary" and o["op"] == "+"][0]["M"][kinds_x.index("int")][kinds_x.index("absent")]},
        {"cell": 'max("", 7)', "result": [o for o in obs if o["t"] == "binary" and o["op"] == "max"][0]["M"][kinds_x.index("empty")][kinds_x.index("int")]},
        {"assignment": obs[-1].get("_prog"), "changed": obs[-1].get("changed")},
    ]
    cov.update({
        "states": states, "transitions": transitions, "traces_validated_against_impl": evaluations,
        "evaluations": evaluations, "distinct_nontrivial": evaluations - nb * 4,
        "rule": "the complete finite matrix: %d binary operators x %d x %d operand kinds, %d unary functions x %d kinds, %d "
                "predicates x kinds, %d lvalue kinds and %d compound assignments x {absent, empty, int}; non-trivial = at "
                "least one operand is not a plain int/float pair; distinct by cell" % (
                    nb, len(vals), len(vals), len(space["unary"]), len(vals), len(space["preds"]), len(space["lvalues"]), len(COMPOUND)),
        "exhaustive": True,
        "cells_that_exit_fatally_without_crash": [list(c[:3]) for c in crashed_cells if not c[3]][:40],
    })
    rc = V.finish()
    vlib.write_evidence(PROP, tier, seed, time.time() - t0, cov, [
        "each kind is represented by one operand (7, 2.5, true/false, \"\", \"abc\", [1, 2], {\"a\": 1}, a function literal, "
        "(1 + true) as the error value, an unset oosvar as absent)",
        "cells on which the reference is silent are unconstrained (they must only not crash)",
        "the rule table is transcribed from reference-main-null-data.md and the function help texts",
    ], len(V.violations))
    return rc


def replay(path):
    with open(path) as f:
        print(f.read())
    return 0
