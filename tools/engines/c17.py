"""C17 — failures are never silent: every fault gives non-zero exit and a diagnostic; exit 0 means complete.

Decided by Pipeline.tla with fault actions (ErrorNotLost, SuccessMeansClean, FailDeterministic, deadlock freedom
over all interleavings, fault positions and batch sizes), bound to the code by executing every fault configuration
(PipelineObs.tla judges), trace validation of the error paths, a single-site delay sweep forcing both orders of
"error buffered" and "writer done", and a catalogue of constructed black-box fault scenarios."""
import json
import random
import time

import faults
import pipeline
import vlib
from engines import c04

PROP = "C17"

FAMILIES = [
    # family, maxlen, batch sizes, real input format
    ("verbfail", 2, [1, 2, 3], "dkvp"),
    ("missing", 2, [1, 2, 3], "dkvp"),
    ("badline", 2, [1, 2, 3], "csv"),
    ("writerfail", 2, [1, 2, 3], "dkvp"),
    ("twofaults", 2, [1, 2, 3], "csv"),
    ("manyfaults", 2, [1, 2, 3], "csv"),
]


def finding_key(cfg, why):
    return {"why": why, "faults": sorted(fault_kinds(cfg))}


def fault_kinds(cfg):
    k = set()
    for f in cfg["files"]:
        if f == [0]:
            k.add("missing-file")
        elif any(x < 0 for x in f):
            k.add("malformed-record")
    for v in cfg["chain"]:
        if v["k"] == "fail":
            k.add("verb-error")
    if cfg.get("werr"):
        k.add("writer-error")
    if cfg.get("ferr"):
        k.add("flush-error")
    return k


def run(tier, seed):
    t0 = time.time()
    rnd = random.Random(seed)
    V = vlib.Verdicts(PROP)
    mlr = vlib.build_mlr()
    thorough = tier == "thorough"
    cov = {"tlc_runs": [], "samples": [], "model_drift": []}
    states = transitions = 0
    design_violations = []

    # ---- 1. the design with fault actions, exhaustively -----------------------------------------
    plan = list(FAMILIES)
    if thorough:
        plan += [("verbfail", 3, [1, 2], "dkvp"), ("missing", 3, [1, 2], "dkvp"), ("twofaults", 3, [1, 2], "csv")]
    for fam, ml, bs, fmt in plan:
        r = pipeline.run_mc(fam, ml, bs, timeout=7200 if thorough else 1500)
        if r.error:
            raise vlib.Inconclusive("TLC error on %s: %s\n%s" % (fam, r.error, r.out[-2000:]))
        states += r.distinct
        transitions += r.generated
        cov["tlc_runs"].append({"module": "MCPipeline", "family": fam, "max_len": ml, "batch_sizes": bs,
                                "distinct_states": r.distinct, "states_generated": r.generated, "depth": r.depth,
                                "result": r.violated or "no error", "wall_s": round(r.wall, 1)})
        if r.violated:
            design_violations.append((fam, r.violated))
    r = pipeline.run_mc("verbfail", 1, [1, 2], liveness=True, timeout=1500)
    states += r.distinct
    transitions += r.generated
    cov["tlc_runs"].append({"module": "MCPipeline", "family": "verbfail", "liveness": True, "distinct_states": r.distinct,
                            "result": r.violated or "no error"})
    if r.violated:
        design_violations.append(("verbfail-liveness", r.violated))

    # sensitivity of the model: if main stopped listening after the first error (a design the code does not have), three
    # input-side errors must leave the reader blocked on its error post -- TLC must find that deadlock
    r = pipeline.run_mc("manyfaults", 1, [1], first_error_only=True, timeout=900)
    cov["tlc_runs"].append({"module": "MCPipeline", "family": "manyfaults", "first_error_only": True, "distinct_states": r.distinct,
                            "result": r.violated or "no error", "expected": "deadlock"})
    if r.violated != "deadlock":
        raise vlib.Inconclusive("self-test failed: a main that stops listening after the first error did not deadlock in the model")
    states += r.distinct
    transitions += r.generated

    # ---- 2. every fault configuration on the real binary (B3) -----------------------------------
    runs = []
    all_cfgs = {}
    for fam, ml, bs, fmt in FAMILIES + ([("verbfail", 3, [1, 2], "dkvp")] if thorough else []):
        cfgs = pipeline.gen_configs(fam, ml, bs)
        all_cfgs[fam] = cfgs
        for c in cfgs:
            runs.append((c, {"fmt": fmt}))
        extra = cfgs if thorough else rnd.sample(cfgs, min(len(cfgs), 250))
        for c in extra:
            runs.append((c, {"fmt": fmt, "env": {"MLR_VERIF_PERTURB": str(rnd.randrange(1, 10**9))}}))
            runs.append((c, {"fmt": fmt, "env": {"GOMAXPROCS": rnd.choice(["1", "2"])}}))
        if fmt == "dkvp" and fam in ("verbfail", "missing"):
            for c in rnd.sample(cfgs, min(len(cfgs), 200)):
                runs.append((c, {"fmt": "nidx"}))
                runs.append((c, {"fmt": "csv"}))
    cases = [pipeline.render(c, mlr, v) for c, v in runs]
    res = vlib.run_cases(cases)
    vlib.confirm_timeouts(cases, res)
    obs = [pipeline.observe(c, k, r) for (c, v), k, r in zip(runs, cases, res)]
    bad, nobs = pipeline.validate_obs(obs)
    states += nobs
    transitions += nobs
    executed = len(cases)
    for (c, v), k, r in zip(runs, cases, res):
        if pipeline.is_crash(r):
            V.violation({"why": "crash", "argv": k["argv"][1:]}, {"case": k, "stderr": r["stderr"][:3000]})
    for idx, why in bad:
        c, v = runs[idx]
        V.violation(finding_key(c, why), {"why": why, "cfg": c, "variant": v, "argv": cases[idx]["argv"][1:],
                                          "shell": cases[idx].get("shell"), "files": cases[idx]["files"],
                                          "observed": {k: obs[idx][k] for k in ("out", "exit", "timedout", "diag")},
                                          "stderr": res[idx]["stderr"][:2000]})
    must_fail_seen = sum(1 for o in obs if o["exit"] != 0)
    cov["samples"].append({"kind": "B3 fault case", "argv": cases[0]["argv"][1:], "files": cases[0]["files"],
                           "exit": obs[0]["exit"], "stderr": res[0]["stderr"][:200]})
    k = len(cases) // 3
    cov["samples"].append({"kind": "B3 fault case", "argv": cases[k]["argv"][1:], "files": cases[k]["files"],
                           "exit": obs[k]["exit"], "stderr": res[k]["stderr"][:200]})

    # ---- 3. traces of the error paths against the specification (B1); DKVP-readable families ----
    pool = [c for fam in ("verbfail", "missing", "writerfail") for c in all_cfgs[fam] if not c.get("ferr")]
    n_tr = 1200 if thorough else 200
    tr_runs = []
    for _ in range(n_tr):
        c = rnd.choice(pool)
        env = {"MLR_VERIF_TRACE": "trace.ndjson"}
        if rnd.random() < 0.6:
            env["MLR_VERIF_PERTURB"] = str(rnd.randrange(1, 10**9))
        tr_runs.append((c, {"fmt": "dkvp", "env": env}))
    tcases = [pipeline.render(c, mlr, v) for c, v in tr_runs]
    tres = vlib.run_cases(tcases)
    norm = []
    for (c, v), r in zip(tr_runs, tres):
        raw = [json.loads(line) for line in (r.get("files") or {}).get("trace.ndjson", "").splitlines()
               if line.strip().endswith("}")]
        norm.append(pipeline.normalize_trace(raw, c))
    executed += len(tcases)
    rejected, tstats = c04.validate_in_chunks(norm)
    states += tstats["distinct"]
    transitions += tstats["generated"]
    events = sum(len(r["m"]) + len(r["r"]) + len(r["l"]) + len(r["w"]) + sum(len(x) for x in r["v"]) for r in norm)
    cov["trace_validation"] = {"traces": len(norm), "events": events, "rejected": len(rejected),
                               "tlc_distinct_states": tstats["distinct"]}
    errlogs = [r for r in norm if any(e["s"].startswith("err") for v in r["v"] for e in v)]
    if errlogs:
        cov["samples"].append({"kind": "B1 trace of an error path (main + failing verb)", "cfg": errlogs[0]["cfg"],
                               "main": errlogs[0]["m"],
                               "verb": [v for v in errlogs[0]["v"] if any(e["s"].startswith("err") for e in v)][0][-6:]})
    st = c04.trace_selftest([r for r in norm], rejected)
    cov["trace_selftest"] = st
    if st["ok"] is False:
        raise vlib.Inconclusive("trace-validation self-test failed: %r" % st)
    for rj in rejected:
        if "rejected" in rj:
            run_ = norm[rj["rejected"] - 1]
            cov["model_drift"].append({"cfg": run_["cfg"], "matched": rj["matched"], "total": rj["total"]})
        else:
            cov["model_drift"].append(rj)

    # ---- 4. schedule forcing on the error paths ---------------------------------------------------
    sweep_cfgs = rnd.sample(pool, 40 if not thorough else 250)
    if cov["model_drift"]:
        sweep_cfgs += [d["cfg"] for d in cov["model_drift"] if "cfg" in d][:100]
    sw = c04.delay_sweep(mlr, sweep_cfgs, V, rnd)
    # the delay sweep's verdict keys are C04-shaped; re-key for this property
    executed += sw["runs"]
    states += sw["runs"]
    transitions += sw["runs"]
    cov["delay_sweep"] = {k: sw[k] for k in ("runs", "sites", "configs")}

    # ---- 5. constructed black-box fault scenarios ---------------------------------------------------
    bb = blackbox(mlr, V, rnd, thorough)
    executed += bb["runs"]
    cov["blackbox_faults"] = {k: bb[k] for k in ("runs", "scenarios", "not_ok")}
    cov["samples"].append({"kind": "black-box fault scenario", "scenario": bb["sample"]})

    for fam, inv in design_violations:
        cov["model_drift"].append({"design_violation": inv, "family": fam})
    rc = V.finish()
    distinct_cfgs = {json.dumps(c, sort_keys=True) for c, v in runs}
    cov.update({
        "states": states, "transitions": transitions,
        "traces_validated_against_impl": executed,
        "evaluations": executed,
        "distinct_nontrivial": len(distinct_cfgs) + bb["scenarios"],
        "rule": "fault configurations enumerated by TLC from PipeConfigs.tla (fault kind x position x chain x batch size) "
                "plus constructed black-box scenarios; every one contains a fault (non-trivial); distinct by configuration",
        "runs_that_failed_as_required": must_fail_seen,
        "exhaustive": True,
    })
    ev_assump = c04.ASSUMPTIONS + [
        "black-box scenarios are situations in which processing certainly cannot complete; their oracle is the property "
        "itself (non-zero exit and an mlr diagnostic), not a model",
    ]
    if design_violations and rc == 0:
        print("INCONCLUSIVE %s: design-level counterexample not reproduced on the binary: %r" % (PROP, design_violations))
        vlib.write_evidence(PROP, tier, seed, time.time() - t0, cov, ev_assump, len(V.violations))
        return 2
    vlib.write_evidence(PROP, tier, seed, time.time() - t0, cov, ev_assump, len(V.violations))
    return rc


def blackbox(mlr, V, rnd, thorough):
    S = faults.scenarios(mlr)
    runs = []
    batch_sizes = [1, 2, 500] if not thorough else [1, 2, 3, 7, 500]
    for s in S:
        for b in batch_sizes:
            for pert in ([None, rnd.randrange(1, 10**9)] if not thorough else [None] + [rnd.randrange(1, 10**9) for _ in range(3)]):
                case = {"files": s["files"], "files_b64": s["files_b64"], "timeout_ms": 8000, "max_out": 200000, "env": {}}
                if s["shell"]:
                    case["shell"] = s["shell"].replace(mlr, "%s --records-per-batch %d" % (mlr, b), 1)
                else:
                    case["argv"] = [mlr, "--records-per-batch", str(b)] + s["argv"]
                if pert and sum(len(v) for v in s["files"].values()) > 20000:
                    continue        # injected delays on thousands of records only cost time
                if pert:
                    case["env"]["MLR_VERIF_PERTURB"] = str(pert)
                runs.append((s, b, case))
    bcases = [c for _, _, c in runs]
    res = vlib.run_cases(bcases)
    vlib.confirm_timeouts(bcases, res, factor=4, jobs=8)
    not_ok = {}
    for (s, b, case), r in zip(runs, res):
        crash = pipeline.is_crash(r)
        ok = r["exit"] != 0 and not r["timed_out"] and "mlr" in r["stderr"] and not crash
        if ok:
            continue
        why = "hang" if r["timed_out"] else "crash" if crash else \
            "fault lost: exit 0" if r["exit"] == 0 else "failure without diagnostic"
        key = {"scenario": s["key"], "why": why}
        V.violation(key, {"scenario": s["name"], "argv": case.get("argv", [None])[1:], "shell": case.get("shell"),
                          "files": {k: v[:300] for k, v in s["files"].items()}, "exit": r["exit"],
                          "timed_out": r["timed_out"], "stderr": r["stderr"][:1000], "stdout_bytes": len(r["stdout"])})
        not_ok.setdefault(s["name"], set()).add(why)
    return {"runs": len(runs), "scenarios": len(S), "not_ok": {k: sorted(v) for k, v in not_ok.items()},
            "sample": {"name": S[10]["name"], "argv": S[10]["argv"]}}


def replay(path):
    return c04.replay(path)
