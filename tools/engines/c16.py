"""C16 — time conversion functions agree with the Gregorian calendar (GMT part) and the d/h/m/s splitters invert each other.

Calendar.tla is the proleptic Gregorian calendar in 32-bit integer arithmetic together with the texts the reference
documents for sec2gmt, sec2gmtdate, strftime/strfntime directives, gmt2sec, strptime/strpntime, nsec2gmt and the
sec2gmt/sec2gmtdate verbs; TimeSplit.tla is the sign-aware d/h/m/s splitting. CalendarMC proves the laws of the property
on the specification (the closed forms are the calendar, parse o format = id, split/join inverse). CalendarGen emits
instants (dense around leap days, century years, year ends, the epoch, years 1 and 9999, the 32-/64-bit ends) and
durations together with every number text and every text to be parsed; the rebuilt binary evaluates all probes of a few
hundred cases per process (one `mlr put` and one verb chain per chunk, under rotating TZ settings: the GMT functions must
not depend on them); CalendarObs judges every observed text with TLC.

The zone section (Zones.tla, ZonesCases.tla, ZonesGen.tla, ZonesMC.tla, ZonesObs.tla) does the same for the local-time
functions on a TABULATED model of 13 IANA zones: ZonesMC proves the laws of the table (lookup, inverse image with gaps and
overlaps, %z round trip), ZonesGen emits instants around every transition of the chosen years with every text to be
parsed and a setting that says how the zone is named (function argument, ENV["TZ"] assignment, --tz, TZ - the other routes
carrying different zones), the binary evaluates ~80 probes per instant, ZonesObs decides which zone applies and judges
every text. The table is compared, as text, with what `zdump -v` prints for the tz database installed on the machine.

Python only spells probes as mlr source (tables below), splits the output lines and moves texts around: no calendar
arithmetic, no zone arithmetic, no expected values.

Development aids: VERIF_C16_MLR=<binary> judges another binary (e.g. one built from a scratch copy of the tree with a fault
put in); VERIF_C16_SECTIONS=zones runs the zone section alone."""
import copy
import json
import os
import shutil
import subprocess
import time
from concurrent.futures import ThreadPoolExecutor

import b3
import vlib

PROP = "C16"

# ---- spelling tables (rendering only) -----------------------------------------------------------------------------


def dsl_str(s):
    return '"' + s.replace("\\", "\\\\").replace('"', '\\"') + '"'


def fmt_text(p):
    return "".join(p["fmt"])


def expr_of(p, i, kind):
    """DSL source of probe number i (1-based) of an instant case; None for probes that are verbs."""
    fn, k = p["fn"], p["k"]
    f = dsl_str(fmt_text(p))
    x = "$x%d" % i
    if fn == "sec2gmt":
        return "sec2gmt($t)" if k == 0 else "sec2gmt($t, %d)" % k
    if fn == "nsec2gmt":
        return "nsec2gmt($tn)" if k == 0 else "nsec2gmt($tn, %d)" % k
    if fn == "sec2gmt.h":
        return "sec2gmt($th)" if k == 0 else "sec2gmt($th, %d)" % k
    if fn == "sec2gmtdate.h":
        return "sec2gmtdate($th)"
    if fn == "strftime.h":
        return "strftime($th, %s)" % f
    if fn == "sec2gmtdate":
        return "sec2gmtdate($t)"
    if fn == "nsec2gmtdate":
        return "nsec2gmtdate($tn)"
    if fn == "strftime":
        return "strftime($t, %s)" % f
    if fn == "strfntime":
        return "strfntime($tn, %s)" % f
    if fn == "gmt2sec":
        return "gmt2sec($iso)"
    if fn == "gmt2nsec":
        return "gmt2nsec($iso)"
    if fn == "gmt2sec.rt":
        return "gmt2sec(sec2gmt($t))"
    if fn == "gmt2nsec.rt":
        return "gmt2nsec(nsec2gmt($tn))"
    # the text of a field is handed over as a string even where it consists of digits only (field values that look like
    # numbers are numbers to mlr: that is type inference, not part of this property)
    if fn in ("strptime", "strptime.c"):
        return "strptime(string(%s), %s)" % (x, f)
    if fn in ("strpntime", "strpntime.c"):
        return "strpntime(string(%s), %s)" % (x, f)
    if fn == "strptime.rt":
        return "strptime(strftime($t, %s), %s)" % (f, f)
    if fn == "strpntime.rt":
        return "strpntime(strfntime($tn, %s), %s)" % (f, f)
    if fn.startswith("v."):
        return None
    raise ValueError(fn)


VERB_FIELD = {"v.sec2gmt": "t", "v.sec2gmtdate": "t", "v.sec2gmt.h": "th", "v.sec2gmtdate.h": "th", "v.sec2gmt.millis": "tm", "v.sec2gmt.micros": "tu", "v.sec2gmt.nanos": "tn"}
VERB_FLAG = {"v.sec2gmt.millis": "--millis", "v.sec2gmt.micros": "--micros", "v.sec2gmt.nanos": "--nanos"}


def verb_of(p, field):
    fn, k = p["fn"], p["k"]
    if fn in ("v.sec2gmtdate", "v.sec2gmtdate.h"):
        return ["sec2gmtdate", field]
    argv = ["sec2gmt"]
    if k:
        argv.append("-%d" % k)
    if fn in VERB_FLAG:
        argv.append(VERB_FLAG[fn])
    return argv + [field]


# names of probe groups, for the keys of findings only
GROUP = {"gmt2sec": "parse-seconds", "gmt2sec.rt": "parse-seconds", "strptime": "parse-seconds", "strptime.rt": "parse-seconds",
         "strptime.c": "parse-seconds", "gmt2nsec": "parse-nanoseconds", "gmt2nsec.rt": "parse-nanoseconds",
         "strpntime": "parse-nanoseconds", "strpntime.rt": "parse-nanoseconds", "strpntime.c": "parse-nanoseconds",
         "v.sec2gmt.millis": "verb-units", "v.sec2gmt.micros": "verb-units", "v.sec2gmt.nanos": "verb-units"}
DUR_EXPR = {
    "sec2dhms": "sec2dhms($t)", "fsec2dhms": "fsec2dhms($t)", "fsec2dhms.f": "fsec2dhms($tf)",
    "sec2hms": "sec2hms($t)", "fsec2hms": "fsec2hms($t)", "fsec2hms.f": "fsec2hms($tf)",
    "dhms2sec": "dhms2sec($x%d)", "dhms2sec.short": "dhms2sec($x%d)", "dhms2fsec": "dhms2fsec($x%d)",
    "hms2sec": "hms2sec($x%d)", "hms2fsec": "hms2fsec($x%d)",
    "dhms2sec.rt": "dhms2sec(sec2dhms($t))", "dhms2fsec.rt": "dhms2fsec(fsec2dhms($t))",
    "hms2sec.rt": "hms2sec(sec2hms($t))", "hms2fsec.rt": "hms2fsec(fsec2hms($t))",
    "sec2dhms.rt": "sec2dhms(dhms2sec(sec2dhms($t)))", "sec2hms.rt": "sec2hms(hms2sec(sec2hms($t)))",
}
NON_EXPR = {
    "sec2gmt": "sec2gmt($x)", "sec2gmt.3": "sec2gmt($x, 3)", "sec2gmtdate": "sec2gmtdate($x)",
    "nsec2gmt": "nsec2gmt($x)", "nsec2gmt.6": "nsec2gmt($x, 6)", "nsec2gmtdate": "nsec2gmtdate($x)",
}
NON_VERB = {
    "v.sec2gmt": ["sec2gmt"], "v.sec2gmt.1": ["sec2gmt", "-1"], "v.sec2gmt.9": ["sec2gmt", "-9"],
    "v.sec2gmt.millis": ["sec2gmt", "--millis"], "v.sec2gmt.micros.6": ["sec2gmt", "-6", "--micros"],
    "v.sec2gmt.nanos.9": ["sec2gmt", "-9", "--nanos"], "v.sec2gmtdate": ["sec2gmtdate"],
}
# how the process is told a time zone (the GMT functions and verbs must not care); zone names from reference-dsl-time.md
TZ_CONFIGS = [
    {"name": "TZ empty", "env": {"TZ": ""}, "flags": [], "begin": ""},
    {"name": "TZ=Asia/Tokyo", "env": {"TZ": "Asia/Tokyo"}, "flags": [], "begin": ""},
    {"name": "--tz America/Sao_Paulo", "env": {"TZ": ""}, "flags": ["--tz", "America/Sao_Paulo"], "begin": ""},
    {"name": 'ENV["TZ"]="Asia/Istanbul"', "env": {"TZ": ""}, "flags": [], "begin": 'begin { ENV["TZ"] = "Asia/Istanbul" } '},
    {"name": "TZ=America/Anchorage", "env": {"TZ": "America/Anchorage"}, "flags": [], "begin": ""},
]
IO = ["--ifs", "tab", "--ofs", "tab"]
ABSENT = "(absent)"


def put_program(exprs, begin=""):
    """exprs: list of (index, source). One output record per input record: n=<NR>, p<i>=<value of probe i>."""
    body = ['o = {}; o["n"] = NR;']
    for i, src in exprs:
        body.append('o["p%d"] = %s;' % (i, src))
    body.append("emit o")
    return begin + "\n".join(body)


def row_text(fields):
    return "\t".join("%s=%s" % kv for kv in fields) + "\n"


def parse_rows(stdout):
    """DKVP lines with tab separators -> {n: {key: value}} (splitting only)."""
    rows = {}
    for line in stdout.split("\n"):
        if not line:
            continue
        rec = {}
        for pair in line.split("\t"):
            k, _, v = pair.partition("=")
            rec[k] = v
        if rec.get("n", "").isdigit():
            rows[int(rec["n"])] = rec
    return rows


def chunks(seq, size):
    for i in range(0, len(seq), size):
        yield seq[i:i + size]


# ---- one family of cases -> mlr jobs ------------------------------------------------------------------------------

def instant_jobs(mlr, kind, probes, cases, tzc):
    """Two processes for a chunk of instants: all function probes in one put, all verb probes in one then-chain."""
    exprs = [(i, expr_of(p, i, kind)) for i, p in enumerate(probes, start=1) if not p["fn"].startswith("v.")]
    verbs = [(i, p) for i, p in enumerate(probes, start=1) if p["fn"].startswith("v.")]
    rows_put, rows_verb = [], []
    for nr, c in enumerate(cases, start=1):
        f = [("t", c["t"]), ("th", c["th"]), ("tm", c["tm"]), ("tu", c["tu"]), ("tn", c["tn"]), ("iso", c["iso"])]
        f += [("x%d" % i, c["x"][i - 1]) for i, p in enumerate(probes, start=1) if p["fn"].startswith(("strptime", "strpntime"))
              and not p["fn"].endswith(".rt")]
        rows_put.append(row_text(f))
        # the verbs overwrite their field: one copy of the number per verb probe
        rows_verb.append(row_text([("n", str(nr))] + [("p%d" % i, c[VERB_FIELD[p["fn"]]]) for i, p in verbs]))
    chain = []
    for i, p in verbs:
        chain += (["then"] if chain else []) + verb_of(p, "p%d" % i)
    jobs = [{"argv": [mlr] + IO + tzc["flags"] + ["put", "-q", put_program(exprs, tzc["begin"])], "stdin": "".join(rows_put),
             "env": tzc["env"], "timeout_ms": 120000, "max_out": 256 << 20},
            {"argv": [mlr] + IO + tzc["flags"] + chain, "stdin": "".join(rows_verb), "env": tzc["env"], "timeout_ms": 120000,
             "max_out": 256 << 20}]
    return jobs


def dur_jobs(mlr, probes, cases):
    exprs = [(i, DUR_EXPR[q] % i if "%d" in DUR_EXPR[q] else DUR_EXPR[q]) for i, q in enumerate(probes, start=1)]
    rows = []
    for c in cases:
        rows.append(row_text([("t", c["t"]), ("tf", c["tf"])] + [("x%d" % i, c["x"][i - 1]) for i in range(1, len(probes) + 1)
                                                                  if "%d" in DUR_EXPR[probes[i - 1]]]))
    return [{"argv": [mlr] + IO + ["put", "-q", put_program(exprs)], "stdin": "".join(rows), "timeout_ms": 120000, "max_out": 256 << 20}]


def diff_jobs(mlr, units, cases, tzc):
    exprs = [(i, "datediff($t1, $t2, %s)" % dsl_str(u)) for i, u in enumerate(units, start=1)]
    rows = [row_text([("t1", c["t1"]), ("t2", c["t2"])]) for c in cases]
    return [{"argv": [mlr] + IO + tzc["flags"] + ["put", "-q", put_program(exprs, tzc["begin"])], "stdin": "".join(rows),
             "env": tzc["env"], "timeout_ms": 120000, "max_out": 256 << 20}]


def non_jobs(mlr, probes, cases, tzc):
    exprs = [(i, NON_EXPR[q]) for i, q in enumerate(probes, start=1) if q in NON_EXPR]
    verbs = [(i, q) for i, q in enumerate(probes, start=1) if q in NON_VERB]
    rows_put = [row_text([("x", c["x"])]) for c in cases]
    rows_verb = [row_text([("n", str(nr))] + [("p%d" % i, c["x"]) for i, _ in verbs]) for nr, c in enumerate(cases, start=1)]
    chain = []
    for i, q in verbs:
        chain += (["then"] if chain else []) + NON_VERB[q] + ["p%d" % i]
    return [{"argv": [mlr] + IO + tzc["flags"] + ["put", "-q", put_program(exprs, tzc["begin"])], "stdin": "".join(rows_put),
             "env": tzc["env"], "timeout_ms": 60000},
            {"argv": [mlr] + IO + tzc["flags"] + chain, "stdin": "".join(rows_verb), "env": tzc["env"], "timeout_ms": 60000}]


def outs_of(nprobes, results, ncases):
    """Merges the output records of the processes of one chunk: out[case][probe-1] = text."""
    merged = [dict() for _ in range(ncases)]
    for r in results:
        for n, rec in parse_rows(r["stdout"]).items():
            if 1 <= n <= ncases:
                merged[n - 1].update(rec)
    return [[m.get("p%d" % i, ABSENT) for i in range(1, nprobes + 1)] for m in merged]


def fmt_key(p):
    return fmt_text(p) if isinstance(p, dict) else ""



# ---- the zone section: spelling tables ------------------------------------------------------------------------------
Z_NOZONE, Z_OWN, Z_ALT, Z_OWNNAME, Z_UTCNAME = 10000, 9999, 9998, 9997, 9996
ZONEINFO = {Z_NOZONE: "none", Z_OWN: "own offset", Z_ALT: "other offset of the zone", Z_OWNNAME: "own name", Z_UTCNAME: "UTC name"}
# functions that take the zone as an extra last argument (route "arg")
Z_TIMES = {"sec2localtime": "t", "sec2localtime.h": "th", "nsec2localtime": "tn"}
Z_FORMAT = {"strftime_local": ("strftime_local", "t"), "strftime_local.h": ("strftime_local", "th"), "strfntime_local": ("strfntime_local", "tn")}


def zexpr(p, i, arg):
    """DSL source of probe i (1-based) of a zone case; arg: the zone is handed to the function itself (as $z)."""
    fn, k = p["fn"], p["k"]
    f = dsl_str(fmt_text(p))
    x = "$x%d" % i
    z = ", $z" if arg else ""
    if fn in Z_TIMES:
        fname = "nsec2localtime" if fn == "nsec2localtime" else "sec2localtime"
        if arg:
            return "%s($%s, %d, $z)" % (fname, Z_TIMES[fn], k)
        return "%s($%s)" % (fname, Z_TIMES[fn]) if k == 0 else "%s($%s, %d)" % (fname, Z_TIMES[fn], k)
    if fn == "sec2localdate":
        return "sec2localdate($t%s)" % z
    if fn == "nsec2localdate":
        return "nsec2localdate($tn%s)" % z
    if fn in Z_FORMAT:
        return "%s($%s, %s%s)" % (Z_FORMAT[fn][0], Z_FORMAT[fn][1], f, z)
    if fn in ("gmt2localtime", "localtime2sec", "localtime2nsec", "localtime2gmt"):
        return "%s(%s%s)" % (fn, x, z)
    if fn in ("strptime_local", "strpntime_local"):
        return "%s(string(%s), %s%s)" % (fn, x, f, z)
    if fn == "strptime_local.rt":
        return "strptime_local(strftime_local($t, %s%s), %s%s)" % (f, z, f, z)
    if fn == "strpntime_local.rt":
        return "strpntime_local(strfntime_local($tn, %s%s), %s%s)" % (f, z, f, z)
    local = "sec2localtime($t, 0, $z)" if arg else "sec2localtime($t)"
    if fn == "localtime2sec.rt":
        return "localtime2sec(%s%s)" % (local, z)
    if fn == "localtime2gmt.rt":
        return "localtime2gmt(%s%s)" % (local, z)
    if fn == "gmt2localtime.rt":
        return "gmt2localtime(sec2gmt($t)%s)" % z
    if fn == "sec2localtime.rt":
        return "sec2localtime(localtime2sec(%s%s), 0, $z)" % (x, z) if arg else "sec2localtime(localtime2sec(%s))" % x
    # the GMT functions, in the same process
    if fn == "sec2gmt":
        return "sec2gmt($t)"
    if fn == "sec2gmtdate":
        return "sec2gmtdate($t)"
    if fn == "strftime":
        return "strftime($t, %s)" % f
    if fn == "gmt2sec":
        return "gmt2sec(%s)" % x
    if fn == "strptime":
        return "strptime(string(%s), %s)" % (x, f)
    raise ValueError(fn)


# ENV["TZ"] is assigned only when the value wanted for the record differs from the last one assigned: later records run
# under an assignment made while an earlier record was processed
Z_PRELUDE = 'begin { @e = "" } if ($e != "" && $e != @e) { ENV["TZ"] = $e; @e = $e } '


def zone_jobs(mlr, probes, cases):
    """One mlr process for a list of zone cases that share the process-level setting (--tz flag, TZ variable) and the
    route; the value to assign to ENV["TZ"] and the zone argument travel in the fields e and z of each record."""
    setting = cases[0]["set"]
    arg = setting["arg"] != ""
    exprs = [(i, zexpr(p, i, arg)) for i, p in enumerate(probes, start=1)]
    rows = []
    for c in cases:
        f = [("t", c.get("t", "")), ("th", c.get("th", "")), ("tn", c.get("tn", "")), ("z", c["set"]["arg"]), ("e", c["set"]["env"])]
        f += [("x%d" % i, c["x"][i - 1]) for i in range(1, len(probes) + 1) if c["x"][i - 1] != ""]
        rows.append(row_text(f))
    flags = ["--tz", setting["flag"]] if setting["flag"] else []
    return [{"argv": [mlr] + IO + flags + ["put", "-q", put_program(exprs, Z_PRELUDE)], "stdin": "".join(rows),
             "env": {"TZ": setting["var"]}, "timeout_ms": 120000, "max_out": 256 << 20}]


def zone_table_guard(segs):
    """The table of Zones.tla against the tz database of this machine: the specification prints, for every transition it
    tabulates, the two lines `zdump -v` prints for it; here they are compared as text (sets of whitespace-normalised
    lines within the segment's years), and the state at the start of each segment with `date`. A difference means the
    installed database is not the one tabulated: no verdict about mlr is possible then."""
    if not shutil.which("zdump"):
        return {"checked": False, "why": "zdump not installed"}
    lines = diffs = 0
    for sg in segs:
        years = set(sg["years"])
        p = subprocess.run(["zdump", "-v", "-c", "%d,%d" % (sg["y1"], sg["y2"] + 1), sg["zone"]], stdout=subprocess.PIPE,
                           stderr=subprocess.PIPE, text=True, timeout=120)
        have = set()
        for ln in p.stdout.splitlines():
            w = ln.split()
            if " UT = " in ln and "isdst=" in ln and len(w) > 5 and w[5] in years:
                have.add(" ".join(w[1:]))
        want = set()
        for ln in sg["lines"]:
            w = ln.split()
            if w[4] in years:
                want.add(" ".join(w))
        lines += len(want)
        if have != want:
            diffs += 1
            vlib.log("[c16] zone table differs from zdump for %s %d..%d: only zdump %r, only table %r" % (
                sg["zone"], sg["y1"], sg["y2"], sorted(have - want)[:4], sorted(want - have)[:4]))
        if shutil.which("date"):
            q = subprocess.run(["date", "-d", "%d-01-01 00:00:00 UTC" % sg["y1"], "+%z %Z"], env={"TZ": sg["zone"], "PATH": os.environ.get("PATH", "/usr/bin:/bin")},
                               stdout=subprocess.PIPE, stderr=subprocess.PIPE, text=True, timeout=60)
            if q.returncode == 0 and q.stdout.strip() != sg["init"]:
                diffs += 1
                vlib.log("[c16] zone table differs from date(1) for the start of %s %d: %r vs %r" % (sg["zone"], sg["y1"], q.stdout.strip(), sg["init"]))
    head = ""
    try:
        with open("/usr/share/zoneinfo/tzdata.zi") as f:
            head = f.readline().strip().lstrip("# ")
    except OSError:
        pass
    return {"checked": True, "zdump_lines_compared": lines, "segments_differing": diffs, "installed_tzdata": head}


class ZoneSection:
    """The zone part of the check, in the steps of run(): start (TLC: laws and case generation, in the pool), jobs (mlr
    processes), judge (TLC on the observations, violations, self-test), finish (the laws, the coverage block)."""

    def __init__(self, tier, seed, pool):
        self.thorough = tier == "thorough"
        self.consts = {"Tier": '"%s"' % tier, "Seed": str(seed), "NRand": str(3000 if self.thorough else 150)}
        self.law_consts = dict(self.consts, DayStep="1" if self.thorough else "5", NearStep="300" if self.thorough else "900",
                               Parts="16" if self.thorough else "4")
        self.f_laws = pool.submit(b3.check_laws, "ZonesMC", self.law_consts, ("Laws",), 3000 if self.thorough else 1200)

        def gen(init, next_, inv):
            return pool.submit(b3.gen_cases, "ZonesGen", self.consts, 3000, 2, inv, None, None, None, init, next_)
        self.gens = {"space": gen("InitSpace", "Stay", "EmitSpace"), "loc": gen("InitLoc", "Stay", "EmitLoc"),
                     "rand": gen("InitRand", "NextRand", "EmitRand"), "gap": gen("InitGap", "Stay", "EmitGap")}
        self.states = self.transitions = 0
        self.cov = {"tlc_runs": []}

    def jobs(self, mlr):
        out = {}
        for name, fut in self.gens.items():
            printed, r = fut.result()
            out[name] = printed
            self.states += r.distinct
            self.transitions += r.generated
            self.cov["tlc_runs"].append({"module": "ZonesGen", "family": name, "cases": len(printed), "result": "no error"})
        space = out["space"][0]
        self.space = space
        self.probes = {"loc": space["loc"], "gap": space["gap"]}
        guard = zone_table_guard(space["segs"])
        self.cov["table_vs_installed_tz_database"] = guard
        if guard.get("segments_differing"):
            raise vlib.Inconclusive("the zone table of Zones.tla does not describe the tz database installed on this machine (%s): "
                                    "%d segment(s) differ from zdump/date" % (guard.get("installed_tzdata"), guard["segments_differing"]))
        seen, cases = set(), []
        for c in out["loc"] + out["rand"] + out["gap"]:
            key = (c["kind"], c["zone"], c["n"], c["s"])
            if key not in seen:
                seen.add(key)
                cases.append(c)
        # processes: cases that share the route and the process-level setting, in the order zone, time
        groups = {}
        for c in cases:
            g = (c["kind"], c["route"], c["set"]["flag"], c["set"]["var"])
            groups.setdefault(g, []).append(c)
        self.plan, js = [], []
        size = 300 if self.thorough else 130
        for g in sorted(groups):
            part_all = sorted(groups[g], key=lambda c: (c["zone"], c["n"], c["s"]))
            for part in chunks(part_all, size):
                j = zone_jobs(mlr, self.probes[g[0]], part)
                self.plan.append((g[0], part, len(js), len(j)))
                js += j
        self.cases = cases
        self.mlr_jobs = js
        return js

    def judge(self, res, V):
        t0 = time.time()
        obs, meta = [], []
        for kind, part, j0, nj in self.plan:
            rs = res[j0:j0 + nj]
            for r, job in zip(rs, self.mlr_jobs[j0:j0 + nj]):
                if r["timed_out"] or r["exit"] != 0:
                    crash = r["timed_out"] or "panic" in r["stderr"] or "goroutine " in r["stderr"]
                    V.violation({"section": "zones", "why": "crash" if crash else "fatal error", "family": kind, "route": part[0]["route"]},
                                {"argv": job["argv"][1:], "env": job.get("env"), "exit": r["exit"], "timed_out": r["timed_out"],
                                 "stderr": r["stderr"][:800], "first_input_rows": job["stdin"][:600]})
            outs = outs_of(len(self.probes[kind]), rs, len(part))
            for c, out in zip(part, outs):
                if kind == "loc":
                    obs.append({"kind": "loc", "set": c["set"], "n": c["n"], "s": c["s"], "f": c["f"], "out": out})
                else:
                    obs.append({"kind": "gap", "set": c["set"], "an": c["an"], "as": c["as"], "n": c["n"], "s": c["s"], "out": out})
                meta.append(c)
        per = max(40, min(1500, len(obs) // 24 + 1))
        bad, n = b3.validate("ZonesObs", obs, self.consts, chunk=per, threads=int(os.environ.get("VERIF_JOBS", 8)))
        self.states += n
        self.transitions += n
        self.cov["validation_wall_s"] = round(time.time() - t0, 1)
        vlib.log("[c16] zones: %d observations judged by TLC in %.1fs, %d reports" % (len(obs), time.time() - t0, len(bad)))
        if os.environ.get("C16_DUMP"):
            with open(os.environ["C16_DUMP"] + ".zones", "w") as f:
                json.dump({"obs": obs, "bad": bad, "probes": self.probes, "cases": meta, "jobs": [j["argv"][1:] for j in self.mlr_jobs[:3]],
                           "stderr": [r["stderr"][:300] for r in res if r["stderr"]][:10]}, f)
        for idx, p in bad:
            c = meta[idx]
            i = p["i"]
            pr = self.probes[c["kind"]][i - 1] if i >= 1 else {"fn": "", "k": 0, "fmt": [], "off": Z_NOZONE}
            zi = ZONEINFO.get(pr["off"], "fixed offset")
            seen_text = obs[idx]["out"][i - 1] if i >= 1 else ""
            key = {"section": "zones", "fn": pr["fn"], "fmt": fmt_text(pr), "k": pr["k"], "zone_info_in_text": zi, "why": p["why"],
                   "class": p["cls"][0] if p["cls"] else "", "zone_name": p["cls"][1] if len(p["cls"]) > 1 else "",
                   "zone_name_position": ("last" if pr["fmt"] and pr["fmt"][-1] == "%Z" else "inner") if "%Z" in pr["fmt"] else "",
                   "error": seen_text == "(error)", "route": c["route"]}
            detail = {"zone": c["zone"], "setting": c["set"], "mlr": zexpr(pr, i, c["set"]["arg"] != "") if i >= 1 else "",
                      "input_text": c["x"][i - 1] if i >= 1 else "", "observed": obs[idx]["out"][i - 1] if i >= 1 else obs[idx]["out"],
                      "offset_minutes_in_text": pr["off"] if pr["off"] < Z_UTCNAME else None}
            if c["kind"] == "loc":
                detail["instant"] = {"days": c["n"], "second_of_day": c["s"], "nanos": c["f"], "epoch_seconds": c["t"], "gmt": c["iso"]}
            else:
                detail["local_time_in_gap"] = c["local"]
            V.violation(key, detail)

        # non-vacuity: texts observed for one instant, claimed for the instant one hour later, must be reported
        nbad = {}
        for idx, _ in bad:
            nbad[idx] = nbad.get(idx, 0) + 1
        good = min((k for k, o in enumerate(obs) if o["kind"] == "loc" and o["s"] < 82800), key=lambda k: nbad.get(k, 0), default=None)
        ggap = [k for k, o in enumerate(obs) if o["kind"] == "gap" and k not in nbad]
        if good is None:
            raise vlib.Inconclusive("no zone observation to run the self-test on")
        c1 = copy.deepcopy(obs[good])
        c1["s"] += 3600
        tests = [c1, obs[good]]
        if len(ggap) >= 2:
            a, b_ = copy.deepcopy(obs[ggap[0]]), copy.deepcopy(obs[ggap[-1]])
            a["out"][0], b_["out"][0] = obs[ggap[-1]]["out"][0], obs[ggap[0]]["out"][0]       # answers of two different gaps exchanged
            tests += [a, obs[ggap[0]]]
        sb, _ = b3.validate("ZonesObs", tests, self.consts)
        per_line = [sum(1 for x in sb if x[0] == k) for k in range(len(tests))]
        st = {"ok": per_line[0] >= per_line[1] + 30 and (len(tests) == 2 or (per_line[2] >= 1 and per_line[3] == 0)),
              "reports": {"instant claimed for one hour later": per_line[0], "the instant itself": per_line[1]}}
        if len(tests) == 4:
            st["reports"].update({"gap case with the answer of another gap": per_line[2], "the gap case itself": per_line[3]})
        self.cov["obs_selftest"] = st
        if st["ok"] is False:
            raise vlib.Inconclusive("zone observation self-test failed: %r" % st)
        self.obs, self.meta, self.bad = obs, meta, bad

    def finish(self):
        laws = self.f_laws.result()
        vlib.log("[c16] zones laws: %d states in %.1fs" % (laws.distinct, laws.wall))
        self.cov["tlc_runs"].append({"module": "ZonesMC", "constants": self.law_consts, "distinct_states": laws.distinct,
                                     "wall_s": round(laws.wall, 1), "result": laws.violated or "no error"})
        if laws.violated:
            raise vlib.Inconclusive("the zone specification itself violates a law of the property: %s" % laws.violated)
        self.states += laws.distinct
        self.transitions += laws.generated
        segs = self.space["segs"]
        loc = [c for c in self.meta if c["kind"] == "loc"]
        gaps = [c for c in self.meta if c["kind"] == "gap"]
        evaluations = sum(len(o["out"]) for o in self.obs)
        classes, routes = {}, {}
        for c in loc:
            classes[c["cls"]] = classes.get(c["cls"], 0) + 1
        for c in self.meta:
            routes[c["route"]] = routes.get(c["route"], 0) + 1
        k = next((i for i, c in enumerate(self.meta) if c["kind"] == "loc" and c["cls"] == "overlap-second"), 0)
        some = [0, 14, 38, 50, 59, 71]
        sample = {"zone": self.meta[k]["zone"], "setting": self.meta[k]["set"], "epoch_seconds": self.meta[k].get("t"), "class": self.meta[k].get("cls"),
                  "observed": {zexpr(self.probes["loc"][i], i + 1, self.meta[k]["set"]["arg"] != "").replace("$x%d" % (i + 1), dsl_str(self.meta[k]["x"][i])):
                               self.obs[k]["out"][i] for i in some if i < len(self.probes["loc"])}}
        self.cov.update({
            "zones": len(self.space["zones"]), "zone_names": self.space["zones"], "segments": len(segs),
            "transitions_tabulated": sum(sg["transitions"] for sg in segs),
            "gaps_tabulated": sum(sg["gaps"] for sg in segs), "overlaps_tabulated": sum(sg["overlaps"] for sg in segs),
            "transitions_exercised": len({(c["k"], c["near"]) for c in loc if c["near"]}),
            "instants": len(loc), "instants_by_class": classes, "local_times_inside_gaps": len(gaps), "cases_by_route": routes,
            "functions": sorted({p["fn"].split(".")[0] for p in self.probes["loc"] + self.probes["gap"]}),
            "probes": {"loc": len(self.probes["loc"]), "gap": len(self.probes["gap"])},
            "evaluations": evaluations, "mlr_processes": len(self.mlr_jobs),
            "distinct_nontrivial": len({json.dumps(o["out"]) for o in self.obs}),
            "sample": sample,
        })
        return self.cov


ZONE_ASSUMPTIONS = [
    "zones: the local-time functions are decided on a TABULATED model (Zones.tla): 13 IANA zones in 19 ranges of whole years between 1967 "
    "and 2037, written down from the rules of tz database release 2025b and compared line by line with `zdump -v` and `date` of this machine on "
    "every run; nothing is decided about other zones, other years, or a machine whose tz database differs (then the check is inconclusive)",
    "zones: a local text without zone information inside a fall-back overlap may denote either instant (the reference does not say which); "
    "inside a spring-forward gap the reference is silent: the reading with the offset before, with the offset after, the transition instant "
    "or (error) are all admitted; %Z is parsed only for alphabetic abbreviations and \"UTC\"",
    "zones: an empty TZ (the system's local zone) and invalid zone names are not exercised; leap seconds do not exist in the model",
]


# ---- the check ----------------------------------------------------------------------------------------------------

def run(tier, seed):
    t0 = time.time()
    V = vlib.Verdicts(PROP)
    mlr = os.environ.get("VERIF_C16_MLR") or vlib.build_mlr()
    sections = [x for x in os.environ.get("VERIF_C16_SECTIONS", "calendar,zones").split(",") if x]
    if "calendar" not in sections:
        return run_zones_only(tier, seed, mlr, V, t0)
    thorough = tier == "thorough"
    cov = {"tlc_runs": [], "samples": []}
    nrand = 6000 if thorough else 400
    consts = {"Tier": '"%s"' % tier, "Seed": str(seed), "NRand": str(nrand)}
    # the laws run beside everything else (they concern the specification only)
    if thorough:
        law_consts = dict(consts, BlockLo="0", BlockHi="3652", BlockSize="1000", SplitRange="400000")
        law_rule = "every day of the years 1..9999 (3653 blocks of 1000 days)"
    else:
        law_consts = dict(consts, BlockLo="600", BlockHi="766", BlockSize="1000", SplitRange="100000")
        law_rule = "every day from 1643-11 to 2100-12 (167 blocks of 1000 days: a full 400-year cycle and the century years 1700-2100)"
    pool = ThreadPoolExecutor(10)
    f_laws = pool.submit(b3.check_laws, "CalendarMC", law_consts, ("Laws",), 3000 if thorough else 900)
    Z = ZoneSection(tier, seed, pool) if "zones" in sections else None

    def gen(init, next_, inv):
        return pool.submit(b3.gen_cases, "CalendarGen", consts, 3000, 2, inv, None, None, None, init, next_)
    g_space = gen("InitSpace", "Stay", "EmitSpace")
    g_fixed = gen("InitFixed", "Stay", "EmitCase")
    g_rand = gen("InitRand", "NextRand", "EmitRand")
    g_dur = gen("InitDur", "Stay", "EmitDur")
    g_rdur = gen("InitRand", "NextRand", "EmitRandDur")
    g_non = gen("InitNon", "Stay", "EmitNon")
    g_diff = gen("InitDiff", "Stay", "EmitDiff")
    g_rdiff = gen("InitRand", "NextRand", "EmitRandDiff")
    states = transitions = 0
    gens = {}
    for name, fut in (("space", g_space), ("fixed", g_fixed), ("rand", g_rand), ("dur", g_dur), ("randdur", g_rdur), ("non", g_non),
                      ("diff", g_diff), ("randdiff", g_rdiff)):
        printed, r = fut.result()
        gens[name] = printed
        states += r.distinct
        transitions += r.generated
        cov["tlc_runs"].append({"module": "CalendarGen", "family": name, "cases": len(printed), "result": "no error"})
    space = gens["space"][0]
    probes = {"sec": space["sec"], "ns": space["ns"]}
    dur_probes, non_probes, diff_units = space["dur"], space["non"], space["diff"]

    def uniq(cases):
        seen, out = set(), []
        for c in cases:
            k = json.dumps(c, sort_keys=True)
            if k not in seen:
                seen.add(k)
                out.append(c)
        return out
    instants = uniq(gens["fixed"] + gens["rand"])
    instants.sort(key=lambda c: (c["kind"], c["n"], c["s"], c["f"]))
    durs = uniq(gens["dur"] + gens["randdur"])
    durs.sort(key=lambda c: (c["sg"], c["d"], c["r"]))
    nons = sorted(gens["non"], key=lambda c: c["x"])
    diffs = uniq(gens["diff"] + gens["randdiff"])
    diffs.sort(key=lambda c: (c["n1"], c["n2"], c["s1"], c["s2"]))

    # ---- run ---------------------------------------------------------------------------------------------------
    jobs, plan = [], []          # plan: (family, cases, first job, number of jobs, tz config name)
    size = 400 if thorough else 120
    nchunk = 0
    for kind in ("sec", "ns"):
        for part in chunks([c for c in instants if c["kind"] == kind], size):
            tzc = TZ_CONFIGS[(nchunk + seed) % len(TZ_CONFIGS)]
            nchunk += 1
            js = instant_jobs(mlr, kind, probes[kind], part, tzc)
            plan.append((kind, part, len(jobs), len(js), tzc["name"]))
            jobs += js
    for part in chunks(durs, 1000):
        js = dur_jobs(mlr, dur_probes, part)
        plan.append(("dur", part, len(jobs), len(js), ""))
        jobs += js
    for k, part in enumerate(chunks(diffs, 1500)):
        tzc = TZ_CONFIGS[(k + seed) % len(TZ_CONFIGS)]
        js = diff_jobs(mlr, diff_units, part, tzc)
        plan.append(("diff", part, len(jobs), len(js), tzc["name"]))
        jobs += js
    for k, tzc in enumerate(TZ_CONFIGS):
        js = non_jobs(mlr, non_probes, nons, tzc)
        plan.append(("non", nons, len(jobs), len(js), tzc["name"]))
        jobs += js
    t_run = time.time()
    zjobs = Z.jobs(mlr) if Z else []
    allres = vlib.run_cases(jobs + zjobs)
    vlib.confirm_timeouts(jobs + zjobs, allres)
    res, zres = allres[:len(jobs)], allres[len(jobs):]
    cov["mlr_wall_s"] = round(time.time() - t_run, 1)
    vlib.log("[c16] %d instants, %d durations, %d non-numbers, %d zone cases; %d + %d mlr processes in %.1fs (t+%.0fs)" % (
        len(instants), len(durs), len(nons), len(Z.cases) if Z else 0, len(jobs), len(zjobs), time.time() - t_run, time.time() - t0))

    obs, meta = [], []           # meta: (family, case, tz name, argv of the put job)
    for family, part, j0, nj, tzname in plan:
        rs = res[j0:j0 + nj]
        for r, job in zip(rs, jobs[j0:j0 + nj]):
            if r["timed_out"] or r["exit"] != 0:
                crash = r["timed_out"] or "panic" in r["stderr"] or "goroutine " in r["stderr"]
                V.violation({"why": "crash" if crash else "fatal error", "family": family, "tz": tzname},
                            {"argv": job["argv"][1:], "exit": r["exit"], "timed_out": r["timed_out"], "stderr": r["stderr"][:800],
                             "first_input_rows": job["stdin"][:600]})
        np = len(probes[family]) if family in probes else len({"dur": dur_probes, "diff": diff_units, "non": non_probes}[family])
        outs = outs_of(np, rs, len(part))
        for c, out in zip(part, outs):
            if family in ("sec", "ns"):
                obs.append({"kind": family, "n": c["n"], "s": c["s"], "f": c["f"], "out": out})
            elif family == "dur":
                obs.append({"kind": "dur", "sg": c["sg"], "d": c["d"], "r": c["r"], "out": out})
            elif family == "diff":
                obs.append({"kind": "diff", "n1": c["n1"], "s1": c["s1"], "n2": c["n2"], "s2": c["s2"], "out": out})
            else:
                obs.append({"kind": "non", "x": c["x"], "out": out})
            meta.append((family, c, tzname))

    # ---- judgement by TLC ------------------------------------------------------------------------------------------
    t_val = time.time()
    per = max(50, min(2500, len(obs) // 24 + 1))
    bad, n = b3.validate("CalendarObs", obs, consts, chunk=per, threads=int(os.environ.get("VERIF_JOBS", 8)))
    states += n
    transitions += n
    cov["validation_wall_s"] = round(time.time() - t_val, 1)
    vlib.log("[c16] %d observations judged by TLC in %.1fs, %d reports (t+%.0fs)" % (len(obs), time.time() - t_val, len(bad), time.time() - t0))
    if os.environ.get("C16_DUMP"):          # development aid: what was observed and what TLC reported
        with open(os.environ["C16_DUMP"], "w") as f:
            json.dump({"obs": obs, "bad": bad, "probes": probes, "dur": dur_probes, "non": non_probes,
                       "cases": [m[1] for m in meta], "jobs": [j["argv"][1:] for j in jobs[:4]],
                       "stderr": [r["stderr"][:300] for r in res if r["stderr"]][:10]}, f)
    for idx, p in bad:
        family, c, tzname = meta[idx]
        i = p["i"]
        if family in ("sec", "ns"):
            pr = probes[family][i - 1] if i >= 1 else {"fn": "", "k": 0, "fmt": [], "off": 0}
            key = {"fn": pr["fn"], "group": GROUP.get(pr["fn"], ""), "fmt": fmt_text(pr), "k": pr["k"], "why": p["why"],
                   "range": p["cls"][0] if p["cls"] else "", "frac": p["cls"][1] if len(p["cls"]) > 1 else ""}
            detail = {"instant": {"days": c["n"], "second_of_day": c["s"], "nanos": c["f"], "epoch_seconds": c["t"], "gmt": c["iso"]},
                      "input_text": c["x"][i - 1] if i >= 1 else "", "offset_minutes": pr["off"],
                      "observed": obs[idx]["out"][i - 1] if i >= 1 else obs[idx]["out"], "tz_setting": tzname,
                      "mlr": (expr_of(pr, i, family) or " ".join(verb_of(pr, VERB_FIELD.get(pr["fn"], "t")))) if i >= 1 else ""}
        elif family == "dur":
            q = dur_probes[i - 1] if i >= 1 else ""
            key = {"fn": q, "why": p["why"], "range": p["cls"][0] if p["cls"] else ""}
            detail = {"value": c["t"], "input_text": c["x"][i - 1] if i >= 1 else "", "observed": obs[idx]["out"][i - 1] if i >= 1 else obs[idx]["out"],
                      "mlr": DUR_EXPR.get(q, "")}
        elif family == "diff":
            u = diff_units[i - 1] if i >= 1 else ""
            key = {"fn": "datediff", "unit": u.lower(), "why": p["why"], "direction": p["cls"][0] if p["cls"] else "",
                   "case": p["cls"][1] if len(p["cls"]) > 1 else ""}
            detail = {"from": c["iso1"], "to": c["iso2"], "mlr": "datediff(%s, %s, %s)" % (c["t1"], c["t2"], dsl_str(u)),
                      "observed": obs[idx]["out"][i - 1] if i >= 1 else obs[idx]["out"], "tz_setting": tzname}
        else:
            q = non_probes[i - 1] if i >= 1 else ""
            key = {"fn": q, "why": p["why"], "value": c["x"]}
            detail = {"value": c["x"], "observed": obs[idx]["out"][i - 1] if i >= 1 else obs[idx]["out"], "tz_setting": tzname}
        V.violation(key, detail)

    # ---- non-vacuity: corrupted copies of observations must be reported (beyond what their originals are) ----------------
    nbad = {}
    for idx, _ in bad:
        nbad[idx] = nbad.get(idx, 0) + 1
    good = min((k for k, o in enumerate(obs) if o["kind"] == "sec" and meta[k][1]["n"] > 0), key=lambda k: nbad.get(k, 0), default=None)
    gdur = next((k for k, o in enumerate(obs) if o["kind"] == "dur" and k not in nbad and o["sg"] > 0 and o["d"] > 0), None)
    if good is None or gdur is None:
        raise vlib.Inconclusive("no observation to run the self-test on")
    c1 = copy.deepcopy(obs[good])
    c1["n"] += 1                                   # the same texts claimed for the next day
    c2 = copy.deepcopy(obs[gdur])
    c2["out"][0] = c2["out"][0].replace("d", "d0", 1)
    c3 = {"kind": "non", "x": "abc", "out": ["abc"] * (len(non_probes) - 1) + ["1970-01-01"]}
    sb, _ = b3.validate("CalendarObs", [c1, obs[good], c2, obs[gdur], c3], consts)
    per_line = [sum(1 for b_ in sb if b_[0] == k) for k in range(5)]
    st = {"ok": per_line[0] >= per_line[1] + 30 and per_line[2] >= 1 and per_line[3] == 0 and per_line[4] == 1,
          "reports": {"instant claimed for the next day": per_line[0], "the instant itself": per_line[1],
                      "duration text with an inserted digit": per_line[2], "the duration itself": per_line[3],
                      "non-number changed by one verb": per_line[4]}}
    cov["obs_selftest"] = st
    if st["ok"] is False:
        raise vlib.Inconclusive("observation self-test failed: %r" % st)

    # ---- the zone section: judgement by TLC, violations, self-test -------------------------------------------------------
    if Z:
        Z.judge(zres, V)

    # ---- the laws ----------------------------------------------------------------------------------------------------
    if Z:
        cov["zones"] = Z.finish()
        states += Z.states
        transitions += Z.transitions
    laws = f_laws.result()
    vlib.log("[c16] laws: %d states in %.1fs (t+%.0fs)" % (laws.distinct, laws.wall, time.time() - t0))
    pool.shutdown()
    cov["tlc_runs"].append({"module": "CalendarMC", "constants": law_consts, "distinct_states": laws.distinct, "wall_s": round(laws.wall, 1),
                            "result": laws.violated or "no error", "gregorian_law_over": law_rule})
    if laws.violated:
        raise vlib.Inconclusive("the specification itself violates a law of the property: %s" % laws.violated)
    states += laws.distinct
    transitions += laws.generated

    # ---- evidence ----------------------------------------------------------------------------------------------------
    evaluations = sum(len(o["out"]) for o in obs)
    asked = 0
    for (family, c, _), o in zip(meta, obs):
        if family in ("sec", "ns"):
            asked += sum(1 for i, p in enumerate(probes[family], start=1)
                         if not (p["fn"].startswith(("strptime", "strpntime")) and not p["fn"].endswith(".rt") and c["x"][i - 1] == ""))
        elif family == "dur":
            asked += sum(1 for i, q in enumerate(dur_probes, start=1) if not ("%d" in DUR_EXPR[q] and c["x"][i - 1] == ""))
        elif family == "diff":
            asked += len(o["out"])
        else:
            asked += len(o["out"])
    nontrivial = len({(o["kind"], json.dumps(o["out"])) for o in obs if o["kind"] != "non"})
    cov["datediff_pairs"] = len(diffs)

    def sample(k):
        family, c, tzname = meta[k]
        pr = probes[family] if family in probes else None
        some = [0, 10, 27, 38, 63] if pr else [0, 3, 6, 11]
        names = [(expr_of(pr[i], i + 1, family) or "verb " + " ".join(verb_of(pr[i], "t"))) if pr
                 else DUR_EXPR[dur_probes[i]].replace("$x%d", dsl_str(c["x"][i])) for i in some]
        return {"case": {k_: v for k_, v in c.items() if k_ != "x"}, "tz_setting": tzname,
                "observed": {nm: obs[k]["out"][i] for nm, i in zip(names, some)}}
    idxs = [k for k in (good, len(obs) // 5, len(obs) // 2, gdur) if meta[k][0] in ("sec", "ns", "dur")]
    kd = next((k for k, m in enumerate(meta) if m[0] == "diff" and m[1]["n1"] != m[1]["n2"]), None)
    if kd is not None:
        cov["samples"].append({"case": {k_: meta[kd][1][k_] for k_ in ("iso1", "iso2", "t1", "t2")}, "tz_setting": meta[kd][2],
                               "observed": {"datediff(t1, t2, %s)" % dsl_str(u): obs[kd]["out"][i] for i, u in enumerate(diff_units)}})
    cov["samples"] += [sample(k) for k in idxs]
    cov.update({
        "states": states, "transitions": transitions, "traces_validated_against_impl": len(obs) + (len(Z.obs) if Z else 0),
        "evaluations": evaluations + (cov["zones"]["evaluations"] if Z else 0), "evaluations_gmt_and_splitters": evaluations,
        "evaluations_decided_by_the_specification": asked, "distinct_nontrivial": nontrivial + (cov["zones"]["distinct_nontrivial"] if Z else 0),
        "rule": "instants: windows of +-%d days around 1 March of %s leap-rule anchor years and around 1 January of %s years, month ends, "
                "the epoch, 0001-01-01, 9999-12-31, the ends of 32-bit seconds and 64-bit nanoseconds, each with 00:00:00, 23:59:59 and a "
                "rotating selection of boundary seconds, plus %d seeded random instants; x %d probes (seconds family) / %d probes "
                "(nanoseconds family, instants within int64 nanoseconds, 2-3 sub-second values each); durations: %d (sign x days x rest "
                "grid plus seeded random) x %d probes; %d pairs of dates x 8 datediff units; %d non-numbers x %d probes x %d TZ settings. non-trivial = distinct (kind, observed "
                "texts) of instant and duration cases. Zones: see the zones block (instants within 3 hours of every tabulated transition of "
                "the chosen years at 30-minute (quick) / 15-minute (thorough) steps and one second either side, ordinary and seeded random "
                "instants, local times inside gaps; each under one of four routes of naming the zone)" % (
                    4 if thorough else 2, "36" if thorough else "11", "36" if thorough else "14", nrand, len(probes["sec"]),
                    len(probes["ns"]), len(durs), len(dur_probes), len(diffs), len(nons), len(non_probes), len(TZ_CONFIGS)),
        "exhaustive": False, "exhaustive_note": "the laws on the specification are exhaustive over their stated ranges; the binding to the "
                                                "binary is by the listed cases",
        "instants": len(instants), "durations": len(durs), "non_numbers": len(nons), "mlr_processes": len(jobs),
        "probes": {"sec": len(probes["sec"]), "ns": len(probes["ns"]), "dur": len(dur_probes), "diff": len(diff_units), "non": len(non_probes)},
        "tz_settings": [t["name"] for t in TZ_CONFIGS],
    })
    rc = V.finish()
    vlib.write_evidence(PROP, tier, seed, time.time() - t0, cov, ZONE_ASSUMPTIONS + [
        "only the integer part of the property is decided: the proleptic Gregorian calendar in GMT for the years 1..9999, the d/h/m/s "
        "splitters, and the local-time functions on the tabulated zones; datediff across zones and the rounding of non-integer float "
        "seconds are not decided (TLC has no floating point)",
        "texts come from Calendar.tla / TimeSplit.tla, written from reference-dsl-time.md and the function help texts; where those leave "
        "a detail open (padding of %Y below year 1000, padding of inner d/h/m/s units, texts of negative durations, leading units of "
        "fsec2dhms, int-or-float spelling of strptime results) every reading is accepted",
        "strptime/strpntime are given texts only for formats built from the documented strptime directives that determine the instant; "
        "%y, %s and fractional seconds other than %f with strpntime are not parsed",
        "the harness spells probes as mlr source by a fixed table and splits tab-separated output; it does no calendar arithmetic",
    ], len(V.violations))
    return rc


def run_zones_only(tier, seed, mlr, V, t0):
    """VERIF_C16_SECTIONS=zones: the zone section alone (development aid, e.g. against a binary with a seeded fault)."""
    vlib.build_harness("runner", tags="")
    pool = ThreadPoolExecutor(6)
    Z = ZoneSection(tier, seed, pool)
    js = Z.jobs(mlr)
    res = vlib.run_cases(js)
    vlib.confirm_timeouts(js, res)
    Z.judge(res, V)
    cov = {"zones": Z.finish(), "sections": ["zones"]}
    pool.shutdown()
    cov.update({"states": Z.states, "transitions": Z.transitions, "traces_validated_against_impl": len(Z.obs), "samples": [cov["zones"]["sample"]],
                "evaluations": cov["zones"]["evaluations"], "distinct_nontrivial": cov["zones"]["distinct_nontrivial"],
                "rule": "the zone section only (VERIF_C16_SECTIONS=zones)", "exhaustive": False})
    rc = V.finish()
    vlib.write_evidence(PROP, tier, seed, time.time() - t0, cov, ZONE_ASSUMPTIONS, len(V.violations))
    return rc


def replay(path):
    with open(path) as f:
        v = json.load(f)
    print(json.dumps(v, indent=1))
    return 0
