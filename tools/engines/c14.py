"""C14 — put/filter programs mean what the language reference says.

MiniMiller.tla is a reference interpreter (big-step, in TLA+) of a core of the DSL with the documented scoping, typing,
absent, control-flow, indexing and emit rules, plus Unparse, which prints an AST with only the parentheses the documented
precedence requires. MiniMillerCases.tla builds program families combinatorially; TLC emits every program (text + AST);
the rebuilt binary runs each; TLC re-interprets the AST and judges the printed lines and emitted records."""
import json
import random
import time

import b3
import vlib

PROP = "C14"
FAMILIES = ["expr", "scope", "func", "loops", "records", "index", "hof", "multifor", "unset", "emitsnap", "positional", "emitp", "abskey"]


def parse_out(stdout):
    """lines of output as items; a block of multi-line JSON printed by `dump` (from a line "{" to the next line "}") becomes one
    print item "D:" + the same JSON on a single line (a syntactic normalisation: the specification prints maps on one line)"""
    items = []
    block = None
    for line in stdout.split("\n"):
        if block is not None:
            block.append(line)
            if line == "}":
                try:
                    items.append(["p", "D:" + json.dumps(json.loads("\n".join(block)))])
                except ValueError:
                    items.append(["p", "D:unparsable"])
                block = None
            continue
        if line == "{":
            block = [line]
            continue
        if line == "{}":
            items.append(["p", "D:{}"])
            continue
        if line == "":
            continue
        if line.startswith("P:") or line == "(error)":
            items.append(["p", line])
        else:
            rec = []
            for pair in line.split(","):
                k, _, v = pair.partition("=")
                rec.append([k, v])
            items.append(["r", rec])
    return items


def run(tier, seed):
    t0 = time.time()
    rnd = random.Random(seed)
    V = vlib.Verdicts(PROP)
    mlr = vlib.build_mlr()
    thorough = tier == "thorough"
    cov = {"tlc_runs": [], "samples": []}
    states = transitions = 0
    all_cases = []
    import os
    for fam in (os.environ.get("VERIF_C14_FAMILIES", "").split(",") if os.environ.get("VERIF_C14_FAMILIES") else FAMILIES):
        cs, g = b3.gen_cases("MiniMillerGen", {"Family": '"%s"' % fam}, timeout=3000)
        states += g.distinct
        transitions += g.generated
        cov["tlc_runs"].append({"module": "MiniMillerGen", "family": fam, "programs": len(cs)})
        if not thorough and len(cs) > 6000:
            cs = rnd.sample(cs, 6000)
        for c in cs:
            all_cases.append((fam, c))
    # how the records are held and cut into batches does not matter to a program (the key index of hashed records is where a
    # rename or a positional assignment can leave something stale)
    MAIN_FLAGS = [[], ["--hash-records"], ["--no-hash-records"], ["--records-per-batch", "1"], ["--hash-records", "--records-per-batch", "2"]]

    def to_run(c, src, recs, k=0):
        argv = [mlr] + (["-n"] if c["n"] else MAIN_FLAGS[k % len(MAIN_FLAGS)]) + ["put"] + (["-q"] if c["q"] else []) + [src]
        stdin = "".join(",".join("%s=%s" % (k, v) for k, v in rec) + "\n" for rec in recs)
        return {"argv": argv, "stdin": stdin, "timeout_ms": 10000, "collect": "tee.out" in src}
    runs = [to_run(c, c["src"], c["recs"], k) for k, (fam, c) in enumerate(all_cases)]
    # law cases (family emitsnap) come with a cut-down program / record list whose output must be a prefix of the whole's
    law_idx = [i for i, (fam, c) in enumerate(all_cases) if c.get("src0")]
    runs0 = [to_run(all_cases[i][1], all_cases[i][1]["src0"], all_cases[i][1]["recs0"], i) for i in law_idx]
    res_all = vlib.run_cases(runs + runs0)
    vlib.confirm_timeouts(runs + runs0, res_all)
    res, res0 = res_all[:len(runs)], dict(zip(law_idx, res_all[len(runs):]))
    obs, omap, parse_failures = [], [], []
    for i, ((fam, c), rr) in enumerate(zip(all_cases, res)):
        err = rr["stderr"]
        if "panic:" in err or ("goroutine " in err and "[running]" in err):
            V.violation({"why": "crash", "family": fam}, {"program": c["src"], "stderr": err[:800]})
            continue
        if rr["timed_out"]:
            V.violation({"why": "hang", "family": fam}, {"program": c["src"]})
            continue
        if rr["exit"] != 0:
            if "parse error" in err or "cannot parse" in err:
                parse_failures.append({"family": fam, "program": c["src"], "stderr": err[:200]})
                continue
            out = [["fatal"]]
        else:
            out = parse_out(rr["stdout"])
            # what a tee statement wrote to its file follows, as items ["t", record]
            out += [["t", it[1]] for it in parse_out((rr.get("files") or {}).get("tee.out", "")) if it[0] == "r"]
        o = {"c": c["c"], "out": out}
        if i in res0:
            r0 = res0[i]
            o["out0"] = [["fatal"]] if (r0["exit"] != 0 or r0["timed_out"]) else parse_out(r0["stdout"])
        obs.append(o)
        omap.append(i)
    if len(parse_failures) > max(5, len(all_cases) // 200):
        raise vlib.Inconclusive("Unparse produces text the parser rejects (%d programs), e.g. %r" % (len(parse_failures), parse_failures[:2]))
    bad, n = b3.validate("MiniMillerObs", obs, chunk=1500, threads=8, timeout=3000)
    states += n
    transitions += n
    for idx, p in bad:
        i = omap[idx]
        fam, c = all_cases[i]
        key = {"family": fam, "program": c["src"]}
        if fam == "func" and p.get("expected") == [["fatal"]] and ["p", "(error)"] in obs[idx]["out"]:
            # identification of a recorded finding (not an oracle): the reference demands a fatal error, the run went on
            # with an error VALUE coming out of a function body
            key = {"family": fam, "shape": "runtime-error-inside-function-body-is-not-fatal"}
        V.violation(key,
                    {"program": c["src"], "input": c["recs"], "observed": obs[idx]["out"], "expected": p.get("expected"),
                     "stderr": res[i]["stderr"][:300]})
    import copy
    badset = {idx for idx, _ in bad}
    base = next((o for k, o in enumerate(obs) if k not in badset and len(o["out"]) >= 2 and o["out"][0][0] == "p"), None)
    if base is None:
        st = {"ok": None, "why": "no conforming observation to corrupt"}
    else:
        cor = copy.deepcopy(base)
        cor["out"] = cor["out"][1:]
        sb, _ = b3.validate("MiniMillerObs", [cor, base])
        st = {"ok": [b[0] for b in sb] == [0]}
    cov["obs_selftest"] = st
    if st["ok"] is False:
        raise vlib.Inconclusive("observation self-test failed")
    fatal = sum(1 for o in obs if o["out"] == [["fatal"]])
    cov["samples"] += [{"program": all_cases[omap[k]][1]["src"], "observed": obs[k]["out"][:6]} for k in (0, len(obs) // 3, len(obs) - 1)]
    cov.update({
        "states": states, "transitions": transitions, "traces_validated_against_impl": len(obs), "evaluations": len(runs),
        "distinct_nontrivial": len({all_cases[i][1]["src"] for i in omap}),
        "rule": "programs built combinatorially by MiniMillerCases.tla (families: operator precedence; block scoping under if/else/for/do; "
                "functions and subroutines with typed parameters, by-value arguments, recursion; nested loops with break/continue at "
                "every position; record assignments/unset/$*/oosvars/filter/pattern-action/emit by names over 3 records; array and map "
                "indexing, slices, auto-extend, auto-create); every program is distinct and non-trivial (it prints or emits)",
        "programs_expected_to_end_in_an_error": fatal, "programs_the_parser_rejected": parse_failures[:5], "exhaustive": thorough,
    })
    rc = V.finish()
    vlib.write_evidence(PROP, tier, seed, time.time() - t0, cov, [
        "the covered language is the core interpreted by MiniMiller.tla: ints, strings, booleans, absent, maps, arrays; + - * . comparisons, "
        "&& || ! ?:; locals (var/untyped/typed), fields, oosvars, $*; if/elif/else, while, do-while, for (single, key-value, triple); "
        "break/continue; pattern-action; func/subr; print, emit @v [by names], filter, unset; length/haskey/is_absent/json_encode",
        "not covered: floats, regexes, string/time/math builtins, higher-order functions, positional names, emitp/emitf/tee/dump, "
        "redirected output, multi-key for loops, ENV, begin blocks with input",
        "the quick tier samples 6000 programs of a family that has more; the thorough tier runs all",
    ], len(V.violations))
    return rc


def replay(path):
    with open(path) as f:
        print(f.read())
    return 0
