"""C15 — string, regex, formatting and hash functions match independent references (case-analysis part and regex part).

Section "strings": Strings.tla gives the index/slice/pad/case/strip/literal-replace/split-join functions over sequences of
abstract characters (byte width 1..4, case partner, whitespace) as predicates Allowed(case, result), PrintfInt.tla builds the
text of integer formats; StringsMC has TLC check the laws of the property on the specification; StringsGen enumerates the
bounded case space family by family; the rebuilt binary evaluates thousands of cases per process (one JSON row per case,
one `mlr put -q` per function); StringsObs judges every result.

Section "regex": Regex.tla is an executable reference semantics (the documented backtracking search over syntax trees whose
text it also defines) for a sub-language of regular expressions and for sub, gsub, regextract, regextract_or_else, strmatch,
strmatchx, =~, !=~ and their captures; RegexProg.tla gives meaning to several regex operations in ONE mlr process (put
statements, user-defined function frames, the verbs sub gsub ssub cut -r having-fields rename -r grep in then-chains);
RegexMC has TLC check laws against an independent positional-language definition; RegexGen enumerates patterns, subjects and
programs; every pattern meets every subject in six spellings (many per process) and every program is one process;
RegexObs judges.  VERIF_C15_MLR points the regex section at another binary (sensitivity experiments), VERIF_C15_ONLY=regex|strings
runs one section.

This file only spells characters, formats, calls and command lines, and splits output text: it holds no expected value.
Digests, base64/hex, latin1, float formats and strf(n)time are reference-equality claims about external libraries and are not
decided here (DESIGN.md §6)."""
import copy
import json
import os
import random
import re
import time
from concurrent.futures import ThreadPoolExecutor

import b3
import vlib

PROP = "C15"

# abstract character -> candidate representatives (the seed picks one column per class); rendering only
REPS = {
    "a": ["a", "q", "k"], "A": ["A", "Q", "K"], "b": ["b", "r", "w"], "B": ["B", "R", "W"],
    "e2": ["é", "ñ", "ü"], "E2": ["É", "Ñ", "Ü"],          # é ñ ü / É Ñ Ü   (2 bytes)
    "c3": ["中", "€", "한"],                                             # 中 € 한          (3 bytes)
    "g4": ["\U0001F600", "\U0001D11E", "\U00010877"],                                 # 😀 𝄞 𐡷          (4 bytes)
    "sp": [" "], "tab": ["\t"], "dot": ["."], "star": ["*"], "comma": [","], "eq": ["="],
    "bel": ["\a"], "bs": ["\b"], "ff": ["\f"], "lf": ["\n"], "cr": ["\r"], "vt": ["\v"], "bsl": ["\\"], "dq": ['"'],
}
for _d in "123456789":
    REPS[_d] = [_d]
CLASSES = [("a", "A"), ("b", "B"), ("e2", "E2"), ("c3",), ("g4",)]          # partners share a column
WIDTH_BYTES = {"e2": 2, "E2": 2, "c3": 3, "g4": 4}

# function -> DSL expression over the fields of a row ($s $t $u strings, $i $j ints, $a array or map); spelling only
EXPR = {
    "strlen": "strlen($s)", "toupper": "toupper($s)", "tolower": "tolower($s)", "capitalize": "capitalize($s)",
    "lstrip": "lstrip($s)", "rstrip": "rstrip($s)", "strip": "strip($s)",
    "collapse_whitespace": "collapse_whitespace($s)", "clean_whitespace": "clean_whitespace($s)",
    "index1": "$s[$i]", "slice": "$s[$i:$j]", "substr": "substr($s, $i, $j)", "substr0": "substr0($s, $i, $j)",
    "substr1": "substr1($s, $i, $j)", "truncate": "truncate($s, $i)",
    "leftpad": "leftpad($s, $i, $t)", "rightpad": "rightpad($s, $i, $t)",
    "dot": "$s . $t", "ssub": "ssub($s, $t, $u)", "gssub": "gssub($s, $t, $u)",
    "index": "index($s, $t)", "contains": "contains($s, $t)",
    "splitax": "splitax($s, $t)", "splita": "splita($s, $t)", "splitnv": "splitnv($s, $t)", "splitnvx": "splitnvx($s, $t)",
    "joinv": "joinv($a, $t)", "joink": "joink($a, $t)", "joinkv": "joinkv($a, $t, $u)",
    "join_split": "joinv(splitax($s, $t), $t)", "split_join": "splitax(joinv($a, $t), $t)",
    "splitkvx_joinkv": "splitkvx(joinkv($a, $t, $u), $t, $u)",
    # integer formatting: $n the value, $fmt the format
    "fmtnum": "fmtnum($n, $fmt)", "fmtifnum": "fmtifnum($n, $fmt)", "hexfmt": "hexfmt($n)",
    "fmtnum_s": "fmtnum($n, $fmt)", "fmtifnum_s": "fmtifnum($n, $fmt)",
}
SHOW = ('r = %s; print NR . "|" . typeof(r) . "|" . '
        '(is_error(r) ? "" : ((is_map(r) || is_array(r)) ? json_stringify(r) : r));')
TYPE_NAMES = {"int": "int", "float": "float", "string": "string", "empty": "empty", "boolean": "boolean", "bool": "boolean",
              "error": "error", "absent": "absent", "map": "map", "array": "array", "funct": "funct"}
FAMILIES = ["unary", "index", "pad", "replace", "find", "split", "join", "fmt", "literal"]
BATCH = 4000
LINE = re.compile(r"^(\d+)\|([a-z]+)\|(.*)$", re.S)
ENV = {"LANG": "en_US.UTF-8"}      # "%_d" takes its separator from LANG; the help text promises commas


class Alphabet:
    def __init__(self, seed):
        rnd = random.Random(seed)
        self.rep = {}
        for cls in CLASSES:
            col = rnd.randrange(3)
            for name in cls:
                self.rep[name] = REPS[name][col]
        for name, cands in REPS.items():
            self.rep.setdefault(name, cands[0])
        self.inv = {ch: name for name, ch in self.rep.items()}

    def text(self, toks):
        return "".join(self.rep[t] for t in toks)

    def toks(self, text):
        return [self.inv.get(ch, "other") for ch in text]


def row_of(fam, c, ab):
    if fam == "fmt":
        if c["v"] == "_d":
            fmt = "%" + (str(c["w"]) if c["w"] else "") + "_d"
        else:
            fmt = "%" + "".join(c["F"]) + (str(c["w"]) if c["w"] else "") + c["lm"] + c["v"]
        return {"n": "abc" if c["f"].endswith("_s") else c["n"], "fmt": fmt}
    if c["ks"]:
        coll = {ab.text(k): ab.text(v) for k, v in zip(c["ks"], c["a"])}
    else:
        coll = [ab.text(v) for v in c["a"]]
    return {"s": ab.text(c["s"]), "t": ab.text(c["t"]), "u": ab.text(c["u"]), "i": c["i"], "j": c["j"], "a": coll}


def mlr_case(mlr, f, rows, expr=None):
    body = "".join(json.dumps(r, ensure_ascii=False) + "\n" for r in rows)
    return {"argv": [mlr, "--ijsonl", "put", "-q", SHOW % (expr or EXPR[f])], "stdin": body, "env": ENV,
            "timeout_ms": 60000 + 20 * len(rows), "max_out": 64 << 20}


def literal_of(c, ab):
    """Family "literal": the string is spelled in the DSL text. Returns (expression, row)."""
    if c["f"] == "literal":
        return '"%s"' % ab.text(c["s"]), {"s": ""}
    ch = ab.rep[c["s"][0]]
    kind, cp = c["t"][0], ord(ch)
    esc = c["u"][0] if kind == "named" else {"octal": "\\%03o", "hex": "\\x%02x", "u4": "\\u%04x", "U8": "\\U%08x"}[kind] % cp
    return '"%s" == $s' % esc, {"s": ch}


def evaluate_single(mlr, items):
    """items: [(expression, row)], one process each (a program the lexer rejects must not take other cases with it)."""
    cases = [mlr_case(mlr, None, [row], expr=e) for e, row in items]
    res = vlib.run_cases(cases)
    vlib.confirm_timeouts(cases, res)
    out = []
    for r in res:
        lines = parse_lines(r["stdout"])
        if r["exit"] == 0 and not r["timed_out"] and 1 in lines:
            out.append((0, lines[1][0], lines[1][1], ""))
        else:
            out.append((-2 if r["timed_out"] else (r["exit"] or 1), "fatal", "", r["stderr"][:400]))
    return out, len(cases)


def parse_lines(stdout):
    out = {}
    for line in stdout.split("\n"):
        m = LINE.match(line)
        if m:
            out[int(m.group(1))] = (TYPE_NAMES.get(m.group(2), m.group(2)), m.group(3))
    return out


def evaluate(mlr, f, rows):
    """Runs all rows of one function; returns [(exit, typeof, payload, stderr)] per row. A batch that dies is split until
    the offending rows are alone."""
    results = [None] * len(rows)
    pending = [list(range(i, min(i + BATCH, len(rows)))) for i in range(0, len(rows), BATCH)]
    nproc = 0
    while pending:
        cases = [mlr_case(mlr, f, [rows[i] for i in idxs]) for idxs in pending]
        res = vlib.run_cases(cases)
        vlib.confirm_timeouts(cases, res)
        nproc += len(cases)
        nxt = []
        for idxs, r in zip(pending, res):
            lines = parse_lines(r["stdout"])
            ok = r["exit"] == 0 and not r["timed_out"]
            missing = []
            for k, i in enumerate(idxs, start=1):
                if k in lines and (ok or len(idxs) > 1):
                    results[i] = (0, lines[k][0], lines[k][1], "")
                else:
                    missing.append(i)
            if not missing and ok:
                continue
            if not missing:                 # every row answered and yet the process failed: find out which row does it
                missing = list(idxs)
            if len(idxs) == 1:
                results[idxs[0]] = (-2 if r["timed_out"] else (r["exit"] or 1), "fatal", "", r["stderr"][:400])
            else:
                step = max(1, (len(missing) + 7) // 8)
                nxt += [missing[k:k + step] for k in range(0, len(missing), step)]
        pending = nxt
    return results, nproc


def result_of(t, payload, ab):
    r = {"k": t, "s": [], "n": 0, "a": [], "ks": []}
    if t == "int":
        if re.match(r"^-?[0-9]{1,9}$", payload):
            r["n"] = int(payload)
        else:
            r["s"] = ab.toks(payload)
    elif t == "boolean":
        r["s"] = [payload]
    elif t in ("array", "map"):
        try:
            v = json.loads(payload, object_pairs_hook=lambda ps: ("map", ps))
        except Exception:
            v = None

        def tk(x):
            return ab.toks(x) if isinstance(x, str) else ["other"]
        if t == "array" and isinstance(v, list):
            r["a"] = [tk(x) for x in v]
        elif t == "map" and isinstance(v, tuple):
            r["ks"] = [tk(k) for k, _ in v[1]]
            r["a"] = [tk(x) for _, x in v[1]]
        else:
            r["k"] = "unparsed-" + t
    else:
        r["s"] = ab.toks(payload)
    return r


def nontrivial(fam, c):
    if fam == "fmt":
        return bool(c["F"]) or c["w"] > 0 or c["v"] != "d" or c["lm"] != ""
    if c["f"] == "escape":
        return True
    strings = [c["s"], c["t"], c["u"]] + list(c["a"]) + list(c["ks"])
    return any(ch in WIDTH_BYTES for s in strings for ch in s)


def key_of(fam, c):
    if fam == "fmt":
        return {"family": "printf", "fn": c["f"], "verb": c["v"], "lm": c["lm"], "flags": "".join(sorted(c["F"])), "width": c["w"] > 0}
    n = len(c["s"])

    def cls(i):
        return "zero" if i == 0 else ("in" if -n <= i <= n else "out")
    key = {"family": "strings", "fn": c["f"]}
    if c["f"] in ("index1", "slice", "substr", "substr0", "substr1", "truncate", "leftpad", "rightpad"):
        key["i"] = cls(c["i"])
        key["empty"] = n == 0
    if c["f"] in ("slice", "substr", "substr0", "substr1"):
        key["j"] = cls(c["j"])
    key["multibyte"] = any(ch in WIDTH_BYTES for s in [c["s"], c["t"], c["u"]] + list(c["a"]) + list(c["ks"]) for ch in s)
    if c["f"] == "literal":
        key["max_width"] = max([WIDTH_BYTES.get(ch, 1) for ch in c["s"]] or [0])
    if c["f"] == "escape":
        key["esc"] = c["u"][0] if c["t"][0] == "named" else c["t"][0]
    return key


# =====================================================================================================================
# The regex section: spec/Regex.tla (reference matcher and functions), RegexProg.tla (several operations in one process),
# RegexCases.tla / RegexGen.tla (case space), RegexMC.tla (laws), RegexObs.tla (judge).  Everything below spells tokens,
# builds command lines and splits output text; no expected value is computed here.
# =====================================================================================================================
RX_LETTERS = [("a", "A", "b", "B"), ("q", "Q", "r", "R"), ("k", "K", "w", "W")]      # (a < b in every column: ranges a-b, A-B)
RX_E2 = ["é", "ñ", "ü"]
RX_FIXED = {"c3": "中", "us": "_", "lt": "<", "gt": ">", "colon": ":", "dot": ".", "comma": ",", "eq": "=", "bsl": "\\",
            "lp": "(", "rp": ")", "bar": "|", "lb": "[", "rb": "]", "hat": "^", "dollar": "$", "star": "*", "plus": "+",
            "qm": "?", "dash": "-", "d": "d"}
RX_FAMS = ["twice", "chain", "caps", "field", "verbs"]
RX_FN = {1: "sub", 2: "sub", 3: "gsub", 4: "gsub", 5: "regextract", 6: "regextract_or_else", 7: "strmatch", 8: "strmatchx",
         9: "=~", 10: "captures", 11: "!=~", 12: "captures"}
RX_X = ['sub($s, {R}, "_")', 'sub($s, {R}, "{T}")', 'gsub($s, {R}, "_")', 'gsub($s, {R}, "{T}")', 'regextract($s, {R})',
        'regextract_or_else($s, {R}, "_")', 'strmatch($s, {R})', 'strmatchx($s, {R})']
RX_Y = ['($s =~ {R})', '"<\\0:\\1:\\2>"', '($s !=~ {R})', '"\\1:\\0"']
RX_SHOW = ('print NR . "|%d|" . typeof(r%d) . "|" . (is_error(r%d) ? "" : ((is_map(r%d) || is_array(r%d)) ? json_stringify(r%d) : r%d));')
RX_LINE = re.compile(r"^(\d+)\|(\d+)\|([a-z]+)\|(.*)$", re.S)
RX_SPELL = {"lit": '"%s"', "liti": '"%s"i', "flag": '"(?i)%s"', "field": "$r", "fieldflag": "$r"}
RX_BATCH = 4000


class RxAlphabet:
    def __init__(self, seed):
        rnd = random.Random(seed * 7919 + 15)
        la, ua, lb, ub = RX_LETTERS[rnd.randrange(3)]
        self.rep = dict(RX_FIXED)
        self.rep.update({"a": la, "A": ua, "b": lb, "B": ub, "e2": RX_E2[rnd.randrange(3)]})
        for d in "0123456789":
            self.rep[d] = d
        self.inv = {ch: name for name, ch in self.rep.items()}

    def text(self, toks):
        return "".join(self.rep[t] for t in toks)

    def toks(self, text):
        return [self.inv.get(ch, "other") for ch in text]


def rx_program(exprs, first, uses):
    """One DSL program evaluating exprs (results numbered 100 * g + first ...) for every use g = (regex operand, replacement,
    statement to put in front) on every row and printing NR|number|typeof|text."""
    out = []
    for g, (R, T, pre) in enumerate(uses):
        if pre:
            out.append(pre)
        for k, e in enumerate(exprs):
            i = 100 * g + first + k
            out.append("r%d = %s;" % (i, e.replace("{R}", R).replace("{T}", T)))
        for k in range(len(exprs)):
            i = 100 * g + first + k
            out.append(RX_SHOW % ((i,) * 7))
    return " ".join(out)


def rx_use(sp, g, p, ra):
    """How the regex of pattern p is written in spelling sp (use number g of a program): (operand, replacement, preamble)."""
    P, T = ra.text(p["text"]), ra.text(p["t"])
    if sp == "var":                          # the regex held in a local variable
        return "v%d" % g, T, 'v%d = "%s";' % (g, P)
    if sp in ("field", "fieldflag"):
        return "$r", T, ""
    return RX_SPELL[sp] % P, T, ""


def rx_spellings(p, ci):
    """The spellings a pattern is evaluated in.  A regex with a backslash is not put into a variable: a string literal that is
    not in regex position reads backslash sequences differently (reference-main-regular-expressions.md, last section)."""
    if ci:
        return ("liti", "flag", "fieldflag")
    return ("lit", "field") + (() if "bsl" in p["text"] else ("var",))


def rx_mx(payload, ra):
    """The JSON text of a strmatchx result -> [keys, full, fs, fe, caps, st, en] (splitting only)."""
    bad = {"keys": ["unparsed"], "full": [], "fs": 0, "fe": 0, "caps": [], "st": [], "en": []}
    try:
        v = json.loads(payload, object_pairs_hook=lambda ps: ("map", ps))
    except Exception:
        return bad
    return rx_mx_of(v, ra) or bad


def rx_mx_of(v, ra):
    if not (isinstance(v, tuple) and v[0] == "map"):
        return None
    x = {"keys": [], "full": [], "fs": 0, "fe": 0, "caps": [], "st": [], "en": []}
    for k, val in v[1]:
        if k == "matched" and isinstance(val, bool):
            x["keys"].append("matched:" + ("true" if val else "false"))
            continue
        x["keys"].append(k)
        if k == "full_capture" and isinstance(val, str):
            x["full"] = ra.toks(val)
        elif k in ("full_start", "full_end") and isinstance(val, int) and not isinstance(val, bool):
            x["fs" if k == "full_start" else "fe"] = val
        elif k == "captures" and isinstance(val, list) and all(isinstance(e, str) for e in val):
            x["caps"] = [ra.toks(e) for e in val]
        elif k in ("starts", "ends") and isinstance(val, list) and all(isinstance(e, int) and not isinstance(e, bool) for e in val):
            x["st" if k == "starts" else "en"] = val
        else:
            x["keys"][-1] = "unparsed:" + k
    return x


RX_MX0 = {"keys": [], "full": [], "fs": 0, "fe": 0, "caps": [], "st": [], "en": []}


RX_GROUP = 8


def rx_call_jobs(mlr, pats, pis_all, subjects, ra):
    """The processes of the "call" family for the patterns pis_all.  Literal and variable spellings: one process per (RX_GROUP
    patterns of one alphabet, spelling, program X / Y) over all subjects of that alphabet; field spellings: rows (subject,
    regex text) of many patterns per process."""
    jobs = []            # (case, meta)  meta = (first, spelling, [[(pattern index, subject index) of row 1, row 2 ...] per use g])
    for sa in sorted(subjects):
        rows = "".join(json.dumps({"s": ra.text(s)}, ensure_ascii=False) + "\n" for s in subjects[sa])
        for sp in ("lit", "liti", "flag", "var"):
            pis = [pi for pi in pis_all if pats[pi]["sa"] == sa and sp in rx_spellings(pats[pi], sp in ("liti", "flag"))]
            for k in range(0, len(pis), RX_GROUP):
                grp = pis[k:k + RX_GROUP]
                uses = [rx_use(sp, g, pats[pi], ra) for g, pi in enumerate(grp)]
                for first, exprs in ((1, RX_X), (9, RX_Y)):
                    jobs.append(({"argv": [mlr, "--ijsonl", "put", "-q", rx_program(exprs, first, uses)], "stdin": rows, "env": ENV,
                                  "timeout_ms": 60000, "max_out": 64 << 20},
                                 (first, sp, [[(pi, si) for si in range(len(subjects[sa]))] for pi in grp])))
    byT = {}
    for pi in pis_all:
        byT.setdefault(ra.text(pats[pi]["t"]), []).append(pi)
    for T, pis in sorted(byT.items()):
        for sp in ("field", "fieldflag"):
            pairs = [(pi, si) for pi in pis for si in range(len(subjects[pats[pi]["sa"]]))]
            for k in range(0, len(pairs), RX_BATCH):
                part = pairs[k:k + RX_BATCH]
                rows = "".join(json.dumps({"s": ra.text(subjects[pats[pi]["sa"]][si]),
                                           "r": ("(?i)" if sp == "fieldflag" else "") + ra.text(pats[pi]["text"])}, ensure_ascii=False) + "\n"
                               for pi, si in part)
                for first, exprs in ((1, RX_X), (9, RX_Y)):
                    jobs.append(({"argv": [mlr, "--ijsonl", "put", "-q", rx_program(exprs, first, [("$r", T, "")])], "stdin": rows, "env": ENV,
                                  "timeout_ms": 120000, "max_out": 64 << 20}, (first, sp, [part])))
    return jobs


def rx_call_collect(jobs, res):
    """-> table[(pattern index, subject index, spelling)] = [exit, {i: (typeof, text)}, {first: process index}]"""
    table = {}
    for ji, ((case, meta), r) in enumerate(zip(jobs, res)):
        ok = r["exit"] == 0 and not r["timed_out"]
        lines = {}
        for line in r["stdout"].split("\n"):
            m = RX_LINE.match(line)
            if m:
                lines.setdefault(int(m.group(1)), {})[int(m.group(2))] = (TYPE_NAMES.get(m.group(3), m.group(3)), m.group(4))
        first, sp, uses = meta
        n = 8 if first == 1 else 4
        for g, keys in enumerate(uses):
            for nr, (pi, si) in enumerate(keys, start=1):
                ent = table.setdefault((pi, si, sp), [0, {}, {}])
                got = lines.get(nr, {})
                for i in range(first, first + n):
                    if 100 * g + i in got:
                        ent[1][i] = got[100 * g + i]
                    else:
                        ent[0] = ent[0] or 1
                if not ok:
                    ent[0] = (-2 if r["timed_out"] else (r["exit"] or 1))
                ent[2][first] = ji
    return table


def rx_out_of(ent, ra):
    exit_, got, _ = ent
    v = []
    x = RX_MX0
    for i in range(1, 13):
        t, payload = got.get(i, ("missing", ""))
        if i == 8 and t == "map":
            x = rx_mx(payload, ra)
            v.append({"k": t, "s": []})
        elif t == "boolean":
            v.append({"k": t, "s": [payload]})
        else:
            v.append({"k": t, "s": ra.toks(payload)})
    return {"exit": exit_, "v": v, "x": x}


def rx_call_obs(pats, pis, subjects, table, ra):
    """One line per (pattern, case mode); spellings with the same output share one entry."""
    obs, index = [], []         # index[line] = (pattern index, ci)
    for pi in pis:
        p = pats[pi]
        for ci in (False, True):
            subs = []
            for si, s in enumerate(subjects[p["sa"]]):
                outs = []
                for sp in rx_spellings(p, ci):
                    o = rx_out_of(table[(pi, si, sp)], ra)
                    for prev in outs:
                        if all(prev[k] == o[k] for k in ("exit", "v", "x")):
                            prev["sp"] += "+" + sp
                            break
                    else:
                        o["sp"] = sp
                        outs.append(o)
                subs.append({"s": s, "outs": outs})
            obs.append({"fam": "call", "re": p["re"], "ci": ci, "t": p["t"], "subs": subs})
            index.append((pi, ci))
    return obs, index


# ---- programs: several operations in one process -------------------------------------------------------------------
def rx_name(n, ra):
    return "${%s}" % ra.text(n)


def rx_operand(rx, ra):
    if rx["src"] == "field":
        return rx_name(rx["f"], ra)
    return RX_SPELL[rx["src"]] % ra.text(rx["tx"])


def rx_statement(st, ra):
    k = st["k"]
    o = rx_name(st["o"], ra)
    if k == "interp":
        return '%s = "%s";' % (o, ra.text(st["a"]))
    if k == "call":
        return "%s = f();" % o
    s, R = rx_name(st["s"], ra), rx_operand(st["rx"], ra)
    if k in ("sub", "gsub", "regextract_or_else"):
        return '%s = %s(%s, %s, "%s");' % (o, k, s, R, ra.text(st["a"]))
    if k in ("regextract", "strmatch", "strmatchx"):
        return "%s = %s(%s, %s);" % (o, k, s, R)
    if k == "match":
        return "%s = (%s =~ %s);" % (o, s, R)
    if k == "notmatch":
        return "%s = (%s !=~ %s);" % (o, s, R)
    raise ValueError(k)


def rx_verb_regex(rx, ra, quoted=True):
    P = ra.text(rx["tx"])
    if rx["src"] == "liti":
        return '"%s"i' % P
    return '"%s"' % P if quoted else P


def rx_verb(vb, ra):
    v = vb["v"]
    if v == "put":
        body = " ".join(rx_statement(st, ra) for st in vb["st"])
        if any(st["k"] == "call" for st in vb["st"]):
            fn = vb["fn"]
            pre = 'func f(): str { %sreturn "%s"; } ' % (
                ('"%s" =~ %s; ' % (ra.text(fn["s"]), rx_operand(fn["rx"], ra))) if fn["has"] else "", ra.text(fn["a"]))
            body = pre + body
        return ["put", body]
    if v in ("sub", "gsub", "ssub"):
        sel = {"f": lambda: ["-f", ",".join(ra.text(n) for n in vb["f"])], "r": lambda: ["-r", ra.text(vb["rs"][0]["tx"])], "a": lambda: ["-a"]}[vb["m"]]()
        return [v] + sel + [ra.text(vb["rx"]["tx"]), ra.text(vb["a"])]
    if v == "cut":
        return ["cut"] + (["-x"] if vb["g"] else []) + ["-r", "-f", ",".join(rx_verb_regex(r, ra) for r in vb["rs"])]
    if v == "having-fields":
        return ["having-fields", "--%s-matching" % vb["m"], rx_verb_regex(vb["rx"], ra)]
    if v == "rename":
        return ["rename"] + (["-g"] if vb["g"] else []) + ["-r", rx_verb_regex(vb["rx"], ra) + "," + ra.text(vb["a"])]
    if v == "grep":
        return ["grep"] + (["-i"] if vb["rx"]["src"] == "liti" else []) + (["-v"] if vb["g"] else []) + [ra.text(vb["rx"]["tx"])]
    raise ValueError(v)


def rx_prog_case(mlr, p, ra):
    argv = [mlr, "--ijsonl", "--ojsonl"]
    for k, vb in enumerate(p["chain"]):
        argv += (["then"] if k else []) + rx_verb(vb, ra)
    rows = ""
    for rec in p["recs"]:
        rows += json.dumps({ra.text(f["n"]): ra.text(f["v"]["s"]) for f in rec}, ensure_ascii=False) + "\n"
    return {"argv": argv, "stdin": rows, "env": ENV, "timeout_ms": 20000, "max_out": 4 << 20}


def rx_prog_out(stdout, ra):
    """The JSON lines that came out -> records [n, v: [t, s, m, re]] (splitting only)."""
    out = []
    for line in stdout.split("\n"):
        if not line.strip():
            continue
        try:
            v = json.loads(line, object_pairs_hook=lambda ps: ("map", ps), parse_int=lambda x: ("num", x), parse_float=lambda x: ("num", x))
        except Exception:
            v = None
        if not (isinstance(v, tuple) and v[0] == "map"):
            out.append([{"n": ["unparsed"], "v": {"t": "?", "s": [], "m": RX_MX0, "re": []}}])
            continue
        rec = []
        for k, val in v[1]:
            if isinstance(val, bool):
                fv = {"t": "b", "s": ["true" if val else "false"], "m": RX_MX0, "re": []}
            elif isinstance(val, str):
                fv = {"t": "s", "s": ra.toks(val), "m": RX_MX0, "re": []}
            elif isinstance(val, tuple) and val[0] == "num":
                fv = {"t": "s", "s": ra.toks(val[1]), "m": RX_MX0, "re": []}
            elif isinstance(val, tuple) and val[0] == "map":
                # (numbers inside the strmatchx map are parsed as ("num", text): turn them back into ints)
                def unnum(z):
                    if isinstance(z, tuple) and z[0] == "num":
                        try:
                            return int(z[1])
                        except ValueError:
                            return z[1]
                    if isinstance(z, list):
                        return [unnum(e) for e in z]
                    return z
                fv = {"t": "m", "s": [], "m": rx_mx_of(("map", [(kk, unnum(vv)) for kk, vv in val[1]]), ra) or dict(RX_MX0, keys=["unparsed"]), "re": []}
            else:
                fv = {"t": "?", "s": [], "m": RX_MX0, "re": []}
            rec.append({"n": ra.toks(k), "v": fv})
        out.append(rec)
    return out


def rx_validate(obs, chunk, threads):
    """RegexObs over the observations -> (bad: {index: [[subject, spelling, result, part], ...]}, unconstrained: set of indices, states)."""
    cfg = b3.cfg_text({"ObsFile": '"obs.ndjson"'}, invariants=["Conforms"])
    parts = [(s, obs[s:s + chunk]) for s in range(0, len(obs), chunk)]

    def one(p):
        start, part = p
        text = "".join(json.dumps(o) + "\n" for o in part)
        r = vlib.tlc("RegexObs", cfg="gen.cfg", extra_files={"gen.cfg": cfg, "obs.ndjson": text}, workers=1, timeout=3000)
        if r.error or r.violated:
            raise vlib.Inconclusive("RegexObs failed: %s\n%s" % (r.error or r.violated, r.out[-3000:]))
        if r.distinct != len(part):
            raise vlib.Inconclusive("RegexObs visited %d of %d observations" % (r.distinct, len(part)))
        bad = {start + q["line"] - 1: q["bad"] for q in r.printed if isinstance(q, dict) and "line" in q}
        unc = {start + q["uline"] - 1 for q in r.printed if isinstance(q, dict) and "uline" in q}
        return bad, unc, r.distinct
    bad, unc, states = {}, set(), 0
    with ThreadPoolExecutor(threads) as ex:
        for b_, u_, n in ex.map(one, parts):
            bad.update(b_)
            unc |= u_
            states += n
    return bad, unc, states


def rx_has_ref(toks):
    return any(a == "bsl" and b.isdigit() for a, b in zip(toks, toks[1:]))


def rx_prog_key(fam, p, out, rec_i, fld_i, part):
    """Names the operation that wrote the field where the first difference is (which statement writes which field is
    read off the program text; nothing is evaluated)."""
    writer = {}
    for vb in p["chain"]:
        for st in vb["st"]:
            writer[json.dumps(st["o"])] = st["k"]
    verbs = [vb["v"] for vb in p["chain"] if vb["v"] != "put"]
    op = None
    if rec_i >= 1 and fld_i >= 1 and rec_i <= len(out) and fld_i <= len(out[rec_i - 1]):
        op = writer.get(json.dumps(out[rec_i - 1][fld_i - 1]["n"]))
    if op is None:
        op = "+".join(verbs) if verbs else "put"
    key = {"family": "regex-program", "kind": fam, "op": op, "part": part,
           "multibyte": any(rx_multibyte(f["v"]["s"]) or rx_multibyte(f["n"]) for rec in p["recs"] for f in rec)}
    for vb in p["chain"]:
        if vb["v"] == "rename" and vb["g"] and rx_has_ref(vb["a"]):
            key["rename_g_with_reference"] = True
        if vb["v"] in ("sub", "gsub", "ssub") and vb["m"] == "r":
            key["sub_verb_option_r"] = True
        if vb["v"] in ("sub", "gsub") and any(len(f["v"]["s"]) == 0 for rec in p["recs"] for f in rec):
            key["sub_verb_meets_empty_value"] = True
    return key


def rx_multibyte(toks):
    return any(t in ("e2", "c3") for t in toks)


RX_SLICE_TRIPLES = 160000          # pattern x mode x subject triples run, judged and forgotten together (bounds the memory of the thorough tier)
RX_CALL_CORRUPTIONS = ["gsub-first-only", "capture-off-by-one", "strmatchx-index-shifted", "case-flag-ignored", "regextract-not-absent"]
RX_PROG_CORRUPTIONS = ["record-lost", "captures-kept-after-failed-match", "second-use-cached"]


def rx_call_slice(mlr, pats, pis, subjects, ra, jobsn, V, want):
    """Runs and judges the call family for the patterns pis. Returns counts."""
    cjobs = rx_call_jobs(mlr, pats, pis, subjects, ra)
    cases = [c for c, _ in cjobs]
    res = vlib.run_cases(cases)
    vlib.confirm_timeouts(cases, res)
    table = rx_call_collect(cjobs, res)
    del res
    cobs, cindex = rx_call_obs(pats, pis, subjects, table, ra)
    per_c = max(8, (len(cobs) + 2 * jobsn - 1) // (2 * jobsn))
    cbad, _, n1 = rx_validate(cobs, per_c, jobsn)
    for li, bads in sorted(cbad.items()):
        pi, ci = cindex[li]
        p = pats[pi]
        for sidx, sps, i, part in bads:
            si, i = int(sidx) - 1, int(i)
            s = subjects[p["sa"]][si]
            sp = sps.split("+")[0]
            ent = table[(pi, si, sp)]
            key = {"family": "regex", "fn": RX_FN[i], "spelling": sp, "multibyte": rx_multibyte(s) or rx_multibyte(p["text"]),
                   "nullable": bool(p["nul"]), "groups": p["ng"] > 0, "empty_subject": len(s) == 0}
            if part:
                key["part"] = part
            if ent[0] != 0:
                key["why"] = "crash" if ent[0] == -2 else "failed"
            row = {"s": ra.text(s)}
            if sp.startswith("field"):
                row["r"] = ("(?i)" if sp == "fieldflag" else "") + ra.text(p["text"])
            prog = rx_program(RX_X if i <= 8 else RX_Y, 1 if i <= 8 else 9, [rx_use(sp, 0, p, ra)])
            V.violation(key, {"pattern": ra.text(p["text"]), "case_insensitive": ci, "spellings": sps, "subject": ra.text(s), "result": i,
                              "function": RX_FN[i], "observed": ent[1].get(i), "replacement": ra.text(p["t"]), "program": prog, "row": row,
                              "replay": "echo '%s' | mlr --ijsonl put -q '%s'" % (json.dumps(row, ensure_ascii=False), prog)})
    rx_call_candidates(cobs, cbad, want)
    nsub = sum(len(o["subs"]) for o in cobs)
    evaluations = sum(12 * len(o["sp"].split("+")) for o_ in cobs for sub in o_["subs"] for o in sub["outs"])
    sample = cjobs[len(cjobs) // 3][0]["argv"][-1][:400]
    return {"states": n1, "nsub": nsub, "evaluations": evaluations, "processes": len(cjobs), "bad": sum(len(b) for b in cbad.values()),
            "sample": sample}


def rx_section(tier, seed, V, cov_all):
    """The regex section. Returns (states, transitions, judged observations, evaluations, distinct non-trivial evaluations)."""
    t0 = time.time()
    thorough = tier == "thorough"
    level = 4 if thorough else 3
    jobsn = int(os.environ.get("VERIF_JOBS", 8))
    mlr = os.environ.get("VERIF_C15_MLR") or vlib.build_mlr()
    ra = RxAlphabet(seed)
    cov = {"tlc_runs": [], "samples": [], "binary": mlr, "representatives": {k: ra.rep[k] for k in ("a", "A", "b", "B", "e2")}}
    cov_all["regex"] = cov
    vlib.build_harness("runner", tags="")

    # ---- laws (in the background) and the case space ------------------------------------------------------------
    pool = ThreadPoolExecutor(4)
    laws_f = pool.submit(b3.check_laws, "RegexMC", {"L": level}, ("Laws",), 6000)

    def gen(fam):
        cases, g = b3.gen_cases("RegexGen", {"L": level, "Fam": '"%s"' % fam}, timeout=3000)
        return fam, cases, g
    fams = ["patterns", "subjects:std", "subjects:dot"] + RX_FAMS
    gens = dict((fam, (cases, g)) for fam, cases, g in pool.map(gen, fams))
    states = sum(g.distinct for _, g in gens.values())
    transitions = sum(g.generated for _, g in gens.values())
    pats = sorted(gens["patterns"][0], key=lambda p: json.dumps(p["text"]))
    subjects = {"std": sorted([c["s"] for c in gens["subjects:std"][0]], key=lambda s: (len(s), s)),
                "dot": sorted([c["s"] for c in gens["subjects:dot"][0]], key=lambda s: (len(s), s))}
    progs = [(fam, p) for fam in RX_FAMS for p in sorted(gens[fam][0], key=lambda p: json.dumps(p, sort_keys=True))]
    for fam in fams:
        cov["tlc_runs"].append({"module": "RegexGen", "family": fam, "cases": len(gens[fam][0])})
    vlib.log("[c15/regex] %d patterns, %d+%d subjects, %d programs generated in %.0fs" % (
        len(pats), len(subjects["std"]), len(subjects["dot"]), len(progs), time.time() - t0))

    # ---- the programs: one process each ---------------------------------------------------------------------------------
    pcases = [rx_prog_case(mlr, p, ra) for _, p in progs]
    pres = vlib.run_cases(pcases)
    vlib.confirm_timeouts(pcases, pres)
    pobs = [{"fam": "prog", "p": p, "exit": (-2 if r["timed_out"] else r["exit"]), "out": rx_prog_out(r["stdout"], ra)}
            for (_, p), r in zip(progs, pres)]
    per_p = max(50, (len(pobs) + jobsn - 1) // jobsn)
    pbad, punc, n2 = rx_validate(pobs, per_p, jobsn)
    states += n2
    transitions += n2
    for li in sorted(pbad):
        fam, p = progs[li]
        c, r = pcases[li], pres[li]
        rec_i, fld_i, part = pbad[li][0]
        key = rx_prog_key(fam, p, pobs[li]["out"], int(rec_i), int(fld_i), part)
        if r["timed_out"] or "panic" in r["stderr"] or "goroutine " in r["stderr"]:
            key["why"] = "crash"
        V.violation(key, {"argv": c["argv"][1:], "stdin": c["stdin"], "exit": r["exit"], "stdout": r["stdout"][:2000], "stderr": r["stderr"][:600],
                          "first_difference": {"record": int(rec_i), "field": int(fld_i), "part": part},
                          "replay": "printf '%s' | mlr %s" % (c["stdin"].replace("\n", "\\n"), " ".join("'%s'" % a for a in c["argv"][1:]))})
    vlib.log("[c15/regex] %d programs run and judged (%d not constrained, %d not conforming), %.0fs" % (
        len(pobs), len(punc), len(pbad), time.time() - t0))

    # ---- the call family, a slice of patterns at a time --------------------------------------------------------------------
    want = {n: None for n in RX_CALL_CORRUPTIONS}
    tot = {"states": 0, "nsub": 0, "evaluations": 0, "processes": 0, "bad": 0}
    order = list(range(len(pats)))
    RX_SLICE = max(40, RX_SLICE_TRIPLES // (2 * max(len(v) for v in subjects.values())))
    for k in range(0, len(order), RX_SLICE):
        st = rx_call_slice(mlr, pats, order[k:k + RX_SLICE], subjects, ra, jobsn, V, want)
        for f in tot:
            tot[f] += st[f]
        if k == 0:
            cov["samples"].append({"program": st["sample"]})
        vlib.log("[c15/regex] patterns %d..%d: %d processes, %d pattern x mode x subject triples judged, %.0fs" % (
            k + 1, min(k + RX_SLICE, len(order)), st["processes"], st["nsub"], time.time() - t0))
    states += tot["states"]
    transitions += tot["states"]

    laws = laws_f.result()
    pool.shutdown()
    if laws.violated:
        raise vlib.Inconclusive("Regex.tla violates its own laws: %s\n%s" % (laws.violated, laws.out[-2000:]))
    if any(isinstance(x, list) and x and x[0] == "law fails" for x in laws.printed):
        raise vlib.Inconclusive("Regex.tla violates its own laws: %r" % [x for x in laws.printed if isinstance(x, list)][:3])
    states += laws.distinct
    transitions += laws.generated
    cov["tlc_runs"].append({"module": "RegexMC", "L": level, "distinct_states": laws.distinct, "result": "no error",
                            "laws": "found = exists, found is a match (independent positional language), leftmost, longest for one greedy item, "
                                    "submatches inside the match, all-matches successive / non-overlapping / nothing skipped, no match = identity, "
                                    "one match: gsub = sub, replacing by \\0 = identity, regextract / =~ / strmatchx agree, s[full_start:full_end] = "
                                    "full_capture, case-insensitive = folded subject, folding only adds matches (no negated class), nullable = "
                                    "matches the empty string, group count = parentheses of the text"})
    vlib.log("[c15/regex] laws checked, %.0fs" % (time.time() - t0))

    # ---- non-vacuity of the judge: corrupted copies of conforming observations must be reported ---------------------
    tests = rx_selftest(want, tot["bad"], pobs, pbad, punc)
    cov["obs_selftest"] = tests
    if tests["ok"] is False:
        raise vlib.Inconclusive("regex observation self-test failed: %r" % tests)

    # ---- coverage ----------------------------------------------------------------------------------------------------
    nontrivial = sum(1 for p in pats for s in subjects[p["sa"]] if rx_multibyte(s) or any(ch in ("A", "B") for ch in s)) * 2 * 12
    operations = sum(len(vb["st"]) if vb["v"] == "put" else 1 for _, p in progs for vb in p["chain"])
    cov.update({
        "patterns": len(pats), "subjects": {k: len(v) for k, v in subjects.items()},
        "pattern_subject_pairs": tot["nsub"] // 2,
        "spellings": ["\"P\"", "\"P\"i", "\"(?i)P\"", "$r = P", "$r = (?i)P", "v = \"P\" (patterns without a backslash)"],
        "functions": ["sub", "gsub", "regextract", "regextract_or_else", "strmatch", "strmatchx", "=~", "!=~", "\\0..\\9 after =~ / !=~"],
        "call_evaluations": tot["evaluations"], "call_processes": tot["processes"],
        "programs": {fam: len(gens[fam][0]) for fam in RX_FAMS}, "program_processes": len(pcases), "program_operations": operations,
        "programs_unconstrained": len(punc), "programs_judged": len(pobs) - len(punc),
        "nullable_patterns": sum(1 for p in pats if p["nul"]), "patterns_with_groups": sum(1 for p in pats if p["ng"] > 0),
        "wall_s": round(time.time() - t0, 1),
    })
    k = len(pobs) // 2
    cov["samples"].append({"argv": pcases[k]["argv"][1:], "stdin": pcases[k]["stdin"], "stdout": pres[k]["stdout"][:600]})
    return states, transitions, tot["nsub"] + len(pobs) - len(punc), tot["evaluations"] + operations, nontrivial + len(pobs) - len(punc)


def rx_call_candidates(cobs, cbad, want):
    """Looks for conforming observations of the call family that the self-test can corrupt (fills `want`)."""
    def call_line(o, sub):
        return {"fam": "call", "re": o["re"], "ci": o["ci"], "t": o["t"], "subs": [sub]}
    badsubs = {(li, int(b_[0]) - 1) for li, bs in cbad.items() for b_ in bs}
    for li, o in enumerate(cobs):
        if all(v is not None for v in want.values()):
            break
        for si, sub in enumerate(o["subs"]):
            if len(sub["outs"]) != 1 or (li, si) in badsubs or sub["outs"][0]["exit"] != 0:
                continue
            v = sub["outs"][0]["v"]
            x = sub["outs"][0]["x"]
            if want["gsub-first-only"] is None and v[2]["s"] != v[0]["s"]:                 # gsub gives what sub gives
                a = copy.deepcopy(sub)
                a["outs"][0]["v"][2] = copy.deepcopy(v[0])
                want["gsub-first-only"] = (call_line(o, a), call_line(o, sub))
            if want["capture-off-by-one"] is None and v[8]["s"] == ["true"] and len(x["caps"]) >= 2 and x["caps"][0] != x["caps"][1]:
                a = copy.deepcopy(sub)                                                      # "<\0:\1:\2>" with \1 and \2 exchanged
                a["outs"][0]["v"][9]["s"] = ["lt"] + x["full"] + ["colon"] + x["caps"][1] + ["colon"] + x["caps"][0] + ["gt"]
                want["capture-off-by-one"] = (call_line(o, a), call_line(o, sub))
            if want["strmatchx-index-shifted"] is None and x["fs"] >= 2:
                a = copy.deepcopy(sub)
                a["outs"][0]["x"]["fs"] += 1
                a["outs"][0]["x"]["fe"] += 1
                want["strmatchx-index-shifted"] = (call_line(o, a), call_line(o, sub))
            if want["regextract-not-absent"] is None and v[4]["k"] == "absent":
                a = copy.deepcopy(sub)
                a["outs"][0]["v"][4] = {"k": "error", "s": []}
                want["regextract-not-absent"] = (call_line(o, a), call_line(o, sub))
            if want["case-flag-ignored"] is None and o["ci"] and li > 0 and (li - 1, si) not in badsubs and cobs[li - 1]["re"] == o["re"]:
                other = cobs[li - 1]["subs"][si]                                            # the "P"i results replaced by the "P" results
                if len(other["outs"]) == 1 and other["outs"][0]["v"] != v and other["outs"][0]["exit"] == 0:
                    a = copy.deepcopy(sub)
                    a["outs"][0]["v"] = copy.deepcopy(other["outs"][0]["v"])
                    a["outs"][0]["x"] = copy.deepcopy(other["outs"][0]["x"])
                    want["case-flag-ignored"] = (call_line(o, a), call_line(o, sub))


def rx_selftest(want, ncbad, pobs, pbad, punc):
    """Corrupted copies of conforming observations (gsub stopping after the first match, captures exchanged, an index shifted,
    the case flag ignored, an error instead of absent, a record lost, a captured text after a failed match, the second use
    of a regex giving what the first gave) must each be reported, and their originals must not."""
    lines, names = [], []
    want = dict(want)
    pw = {n: None for n in RX_PROG_CORRUPTIONS}
    for li, o in enumerate(pobs):
        if li in pbad or li in punc or o["exit"] != 0 or not o["out"]:
            continue
        if pw["record-lost"] is None and len(o["out"]) >= 2:
            a = copy.deepcopy(o)
            a["out"] = a["out"][1:]
            pw["record-lost"] = (a, o)
        if pw["captures-kept-after-failed-match"] is None:
            # an interpolated literal that came out as "<:>" (after a failed match) replaced by a captured-looking text
            for ri, rec in enumerate(o["out"]):
                for fi, f in enumerate(rec):
                    if f["v"]["t"] == "s" and f["v"]["s"] == ["lt", "colon", "gt"] and pw["captures-kept-after-failed-match"] is None:
                        a = copy.deepcopy(o)
                        a["out"][ri][fi]["v"]["s"] = ["lt", "a", "colon", "1", "gt"]
                        pw["captures-kept-after-failed-match"] = (a, o)
        if pw["second-use-cached"] is None and len(o["out"]) >= 1:
            # two fields of one record that differ (e.g. the "P" and the "P"i result): the second made equal to the first
            for ri, rec in enumerate(o["out"]):
                outs = [fi for fi, f in enumerate(rec) if f["n"][:1] == ["us"] and f["v"]["t"] == "s"]
                if len(outs) >= 2 and rec[outs[0]]["v"] != rec[outs[1]]["v"] and pw["second-use-cached"] is None:
                    a = copy.deepcopy(o)
                    a["out"][ri][outs[1]]["v"] = copy.deepcopy(rec[outs[0]]["v"])
                    pw["second-use-cached"] = (a, o)
        if all(v is not None for v in pw.values()):
            break
    want.update(pw)
    for name, pair in want.items():
        if pair is not None:
            names.append(name)
            lines += [pair[0], pair[1]]
    missing = [n for n, pair in want.items() if pair is None]
    broken = bool(ncbad or pbad)
    if not lines:
        return {"ok": None if broken else False, "why": "no conforming candidate", "skipped_no_conforming_candidate": missing}
    bad, _, _ = rx_validate(lines, len(lines), 1)
    reported = sorted(bad)
    ok = reported == list(range(0, len(lines), 2))
    # (a candidate may be missing on a tree that breaks the property; missing candidates on a conforming run mean a broken case space)
    if missing and not broken:
        ok = False
    return {"ok": ok, "reported": reported, "corruptions": names, "skipped_no_conforming_candidate": missing}


def strings_section(tier, seed, V, cov, t0):
    """The case-analysis section (Strings.tla, PrintfInt.tla); fills cov."""
    mlr = vlib.build_mlr()
    thorough = tier == "thorough"
    level = 4 if thorough else 3
    ab = Alphabet(seed)
    cov.update({"tlc_runs": [], "samples": [], "representatives": {k: v for k, v in ab.rep.items() if len(REPS[k]) > 1}})

    # ---- the laws of the property on the specification itself ---------------------------------------------------
    laws = b3.check_laws("StringsMC", {"MaxLen": level})
    if laws.violated:
        raise vlib.Inconclusive("Strings.tla / PrintfInt.tla violate their own laws: %s" % laws.violated)
    states, transitions = laws.distinct, laws.generated
    cov["tlc_runs"].append({"module": "StringsMC", "MaxLen": level, "distinct_states": laws.distinct, "result": "no error",
                            "laws": ["LenLaws", "IndexLaws", "TruncateLaws", "PadLaws", "CaseLaws", "WhitespaceLaws", "ReplaceLaws",
                                     "SplitLaws", "WitnessLaws", "ArrayLaws", "FmtLaws"]})

    # ---- the case space, family by family ----------------------------------------------------------------------------
    def gen(fam):
        cases, g = b3.gen_cases("StringsGen", {"Fam": '"%s"' % fam, "L": level}, timeout=3000)
        return fam, cases, g
    with ThreadPoolExecutor(3) as ex:
        gens = list(ex.map(gen, FAMILIES))
    allcases = []          # (family, case)
    for fam, cases, g in gens:
        states += g.distinct
        transitions += g.generated
        cov["tlc_runs"].append({"module": "StringsGen", "family": fam, "cases": len(cases)})
        allcases += [(fam, c) for c in cases]
    vlib.log("[c15] %d cases generated in %.0fs" % (len(allcases), time.time() - t0))

    # ---- evaluation: one process per function and batch ----------------------------------------------------------------
    byfn = {}
    for idx, (fam, c) in enumerate(allcases):
        byfn.setdefault(c["f"], []).append(idx)
    raw = [None] * len(allcases)
    nproc = 0
    vlib.build_harness("runner", tags="")        # (before the threads below use it)

    exprs = {}

    def ev(f):
        idxs = byfn[f]
        if f in ("literal", "escape"):
            items = [literal_of(allcases[i][1], ab) for i in idxs]
            for i, (e, _) in zip(idxs, items):
                exprs[i] = e
            res, n = evaluate_single(mlr, items)
            return f, idxs, [row for _, row in items], res, n
        rows = [row_of(allcases[i][0], allcases[i][1], ab) for i in idxs]
        res, n = evaluate(mlr, f, rows)
        return f, idxs, rows, res, n
    rows_of = {}
    with ThreadPoolExecutor(4) as ex:
        for f, idxs, rows, res, n in ex.map(ev, sorted(byfn)):
            nproc += n
            for i, row, r in zip(idxs, rows, res):
                raw[i] = r
                rows_of[i] = row
    vlib.log("[c15] %d evaluations in %d mlr processes, %.0fs" % (len(allcases), nproc, time.time() - t0))

    # ---- observations ---------------------------------------------------------------------------------------------
    obs = []
    for (fam, c), (rc, t, payload, err) in zip(allcases, raw):
        if fam == "fmt":
            obs.append({"fam": "fmt", "c": c, "exit": rc, "k": t, "out": payload})
        else:
            obs.append({"fam": "str", "c": c, "exit": rc, "r": result_of(t, payload, ab)})
    bad, n = b3.validate("StringsObs", obs, chunk=20000, threads=6)
    states += n
    transitions += n
    for idx, _ in bad:
        fam, c = allcases[idx]
        rc, t, payload, err = raw[idx]
        if rc != 0 and ("panic" in err or "goroutine " in err or rc == -2):
            key = dict(key_of(fam, c), why="crash")
        else:
            key = key_of(fam, c)
        e = exprs.get(idx) or EXPR[c["f"]]
        V.violation(key, {"expression": e, "row": rows_of[idx], "case": c, "exit": rc, "typeof": t, "result": payload,
                          "result_characters": obs[idx].get("r", {}).get("s"), "stderr": err,
                          "replay": "echo '%s' | mlr --ijsonl put -q '%s'" % (json.dumps(rows_of[idx], ensure_ascii=False), SHOW % e)})

    # ---- non-vacuity of the judge: corrupted copies of conforming observations must be reported ------------------------
    badset = {i for i, _ in bad}

    def pick(pred):
        return next((i for i, o in enumerate(obs) if i not in badset and pred(o)), None)
    tests = []
    i1 = pick(lambda o: o["fam"] == "str" and o["c"]["f"] == "strlen" and any(ch in WIDTH_BYTES for ch in o["c"]["s"]))
    if i1 is not None:                      # a strlen that counted bytes
        a = copy.deepcopy(obs[i1])
        a["r"]["n"] = len(ab.text(a["c"]["s"]).encode("utf-8"))
        tests.append(("strlen-in-bytes", a, obs[i1]))
    i2 = pick(lambda o: o["fam"] == "str" and o["c"]["f"] == "substr1" and o["r"]["k"] == "string" and len(o["r"]["s"]) >= 2
              and 1 <= o["c"]["i"] <= o["c"]["j"] <= len(o["c"]["s"]))
    if i2 is not None:                      # a substring one character short
        a = copy.deepcopy(obs[i2])
        a["r"]["s"] = a["r"]["s"][:-1]
        tests.append(("substr1-short", a, obs[i2]))
    i3 = pick(lambda o: o["fam"] == "str" and o["c"]["f"] == "toupper" and "g4" in o["c"]["s"])
    if i3 is not None:                      # a multi-byte character split into bytes
        a = copy.deepcopy(obs[i3])
        p = a["r"]["s"].index("g4")
        a["r"]["s"][p:p + 1] = ["other"] * 4
        tests.append(("byte-split", a, obs[i3]))
    i4 = pick(lambda o: o["fam"] == "fmt" and o["c"]["f"] == "fmtnum" and o["c"]["v"] == "d" and o["c"]["w"] >= 4 and "-" not in o["c"]["F"])
    if i4 is not None:                      # a pad one short
        a = copy.deepcopy(obs[i4])
        a["out"] = a["out"][1:]
        tests.append(("printf-width", a, obs[i4]))
    wanted = ["strlen-in-bytes", "substr1-short", "byte-split", "printf-width"]
    missing = [w for w in wanted if w not in [x[0] for x in tests]]
    fn_of = {"strlen-in-bytes": "strlen", "substr1-short": "substr1", "byte-split": "toupper", "printf-width": "fmtnum"}
    badfns = {allcases[i][1]["f"] for i in badset}
    unexplained = [w for w in missing if fn_of[w] not in badfns]
    if unexplained:
        # (on a tree that breaks the property a function may have no conforming observation left: that is a verdict, not a
        # reason to give up; a candidate missing although the function has no non-conforming observation means a broken case space)
        raise vlib.Inconclusive("observation self-test: no conforming candidate for %s" % ", ".join(unexplained))
    lines = []
    for _, a, o in tests:
        lines += [a, o]
    sb, _ = b3.validate("StringsObs", lines) if lines else ([], 0)
    st = {"ok": [b[0] for b in sb] == list(range(0, 2 * len(tests), 2)), "reported": [b[0] for b in sb],
          "corruptions": [x[0] for x in tests], "skipped_no_conforming_candidate": missing}
    cov["obs_selftest"] = st
    if st["ok"] is False:
        raise vlib.Inconclusive("observation self-test failed: %r" % st)

    # ---- evidence --------------------------------------------------------------------------------------------------
    nt = {json.dumps(c, sort_keys=True) for fam, c in allcases if nontrivial(fam, c)}
    perfn = {f: len(v) for f, v in sorted(byfn.items())}
    for i in (i1, i2, i4, len(obs) // 3):
        if i is None:
            continue
        o = obs[i]
        cov["samples"].append({"expression": exprs.get(i) or EXPR[o["c"]["f"]], "row": rows_of[i], "typeof": raw[i][1], "result": raw[i][2]})
    cov.update({
        "states": states, "transitions": transitions, "traces_validated_against_impl": len(obs),
        "evaluations": len(obs), "distinct_nontrivial": len(nt),
        "rule": "every case of StringsGen.tla at level %d (%s): all strings up to the bound over alphabets of 1-, 2-, 3- and 4-byte "
                "characters x all indices in -(n+2)..n+2, all pads / patterns / separators / arrays / maps of the bound, and integer "
                "formats value x flag set x width x length modifier x verb; non-trivial = an argument contains a multi-byte character, so that counting bytes "
                "and counting characters differ (strings), an escape sequence (literals), any flag, width, length modifier or non-decimal "
                "verb (formats); distinct by case" % (level, ", ".join("%s %d" % (f, k) for f, k in perfn.items())),
        "exhaustive": True, "mlr_processes": nproc, "cases_per_function": perfn,
    })
    vlib.log("[c15] strings section done, %.0fs" % (time.time() - t0))


ASSUMPTIONS = [
    "decided: the case-analysis part of the string library and the regular-expression functions and verbs on a documented "
    "sub-language; NOT checked: md5/sha/crc32, base64/hex, latin1/utf8, float formats, strftime/strfntime, format-values, "
    "case, clean-whitespace, unspace, utf8-to-latin1 (no TLA+ oracle: DESIGN.md §6)",
    "one representative per abstract character (the seed picks among three per class); characters of a class are assumed to behave "
    "alike; whitespace is space and tab only; no combining marks, no invalid UTF-8",
    "strings come from JSON string fields (never type-inferred); in the strings section they contain no digits, so type inference of "
    "results plays no role; in the regex section only the text and typeof() of results are observed",
    "where the help texts are silent the specification admits every reading: substr/substr0/substr1 and truncate outside the string "
    "(error, absent or any substring), a slice bound 0 (error or trimmed), which whitespace character survives a collapsed run, "
    "Unicode or ASCII-only case mapping of non-ASCII letters, which occurrence index() reports, overlapping gssub matches, splitting "
    "the empty string, and for formats the points where C printf and Go fmt differ ('+'/' ' with x X o b, '#' with 0, '#' with '0' and "
    "a width); negative values with x X o b, precisions, %i %u %s are left out",
    "regex section: the regex sub-language is literals, '.', [..] with ranges and negation, \\d, an escaped '.', concatenation, '|', "
    "greedy * + ?, one level of capturing groups (a quantified group cannot match the empty string), ^ and $; subjects of at most 3 "
    "(thorough: 4) characters; the meaning of a match is the one pkg.go.dev/regexp documents (leftmost, then what a backtracking "
    "search finds first; 'All': successive non-overlapping matches, an empty match abutting a preceding match is ignored); left "
    "open: whether captures survive from one record to the next, the indices strmatchx reports for empty pieces, a \"\\1\" "
    "literal passed to sub/gsub while captures of =~ are set, renames that collide, empty records",
    "the observation plumbing (NR, typeof, is_error, the dot operator, json_stringify, print, assignment to a new field, the JSON "
    "reader and writer) and LANG=en_US.UTF-8 for %_d are trusted",
]


def run(tier, seed):
    t0 = time.time()
    V = vlib.Verdicts(PROP)
    only = os.environ.get("VERIF_C15_ONLY", "")          # development aid: "regex" or "strings" runs one section (evidence says so)
    cov = {"tlc_runs": [], "samples": []}
    if only != "regex":
        strings_section(tier, seed, V, cov, t0)
    else:
        cov.update({"states": 0, "transitions": 0, "traces_validated_against_impl": 0, "evaluations": 0, "distinct_nontrivial": 0,
                    "rule": "(strings section skipped: VERIF_C15_ONLY=regex)", "exhaustive": True})
    if only != "strings":
        st, tr, nobs, nev, nnt = rx_section(tier, seed, V, cov)
        rx = cov["regex"]
        cov["states"] += st
        cov["transitions"] += tr
        cov["traces_validated_against_impl"] += nobs
        cov["evaluations"] += nev
        cov["distinct_nontrivial"] += nnt
        cov["rule"] += ("; regex section: every pattern of RegexCases.tla at level %d (%d patterns: single items, pairs, triples, anchored, "
                        "alternations, one-level groups, escapes) x every subject of its alphabet (a A b 1 and a 2-byte character, up to "
                        "%d characters) x case-sensitive / case-insensitive x the spellings of the regex (\"P\", \"P\"i, \"(?i)P\", a field holding P or (?i)P, a variable holding P) x 12 results (sub, gsub with and "
                        "without references, regextract, regextract_or_else, strmatch, strmatchx, =~, !=~ and the captures after them), "
                        "plus %d programs with several regex operations in one process (one process each); non-trivial = the subject "
                        "contains an upper-case letter or a multi-byte character (call family), every constrained program"
                        % (4 if tier == "thorough" else 3, rx["patterns"], 4 if tier == "thorough" else 3, rx["program_processes"]))
    if only:
        cov["only_section"] = only
    rc = V.finish()
    vlib.write_evidence(PROP, tier, seed, time.time() - t0, cov, ASSUMPTIONS, len(V.violations))
    return rc


def replay(path):
    with open(path) as f:
        v = json.load(f)
    print(json.dumps(v, indent=1, ensure_ascii=False))
    d = v.get("detail", {})
    rmlr = os.environ.get("VERIF_C15_MLR") or None
    if "argv" in d and "stdin" in d:            # a program of the regex section
        c = {"argv": [rmlr or vlib.build_mlr()] + d["argv"], "stdin": d["stdin"], "env": ENV, "timeout_ms": 20000}
        r = vlib.run_cases([c])[0]
        print("now: exit=%s stdout=%r stderr=%r" % (r["exit"], r["stdout"], r["stderr"][:300]))
    elif "program" in d and "row" in d:         # one evaluation of the regex section
        c = {"argv": [rmlr or vlib.build_mlr(), "--ijsonl", "put", "-q", d["program"]], "stdin": json.dumps(d["row"], ensure_ascii=False) + "\n",
             "env": ENV, "timeout_ms": 20000}
        r = vlib.run_cases([c])[0]
        print("now: exit=%s stdout=%r stderr=%r" % (r["exit"], r["stdout"], r["stderr"][:300]))
    elif "row" in d and "expression" in d:
        mlr = vlib.build_mlr()
        fn = d["case"]["f"]
        r = vlib.run_cases([mlr_case(mlr, fn, [d["row"]], expr=d["expression"])])[0]
        print("now: exit=%s stdout=%r stderr=%r" % (r["exit"], r["stdout"], r["stderr"][:300]))
    return 0
