"""C15 — string, regex, formatting and hash functions match independent references (case-analysis part only).

Strings.tla gives the index/slice/pad/case/strip/literal-replace/split-join functions over sequences of abstract
characters (byte width 1..4, case partner, whitespace) as predicates Allowed(case, result), PrintfInt.tla builds the text
of integer formats; StringsMC has TLC check the laws of the property on the specification; StringsGen enumerates the
bounded case space family by family; the rebuilt binary evaluates thousands of cases per process (one JSON row per case,
one `mlr put -q` per function); StringsObs judges every result.  This file only spells characters, formats and calls,
and splits output lines: it holds no expected value.

The regex engine, digests, base64/hex, latin1, float formats and strf(n)time are reference-equality claims about
external libraries and are not decided here (DESIGN.md §6)."""
import copy
import json
import random
import re
import time
from concurrent.futures import ThreadPoolExecutor

import b3
import vlib

PROP = "C15"

# abstract character -> candidate representatives (the seed picks one column per class); rendering only
REPS = {
    "a": ["a", "q", "k"], "A": ["A", "Q", "K"], "b": ["b", "r", "w"], "B": ["B", "R", "W"],
    "e2": ["é", "ñ", "ü"], "E2": ["É", "Ñ", "Ü"],          # é ñ ü / É Ñ Ü   (2 bytes)
    "c3": ["中", "€", "한"],                                             # 中 € 한          (3 bytes)
    "g4": ["\U0001F600", "\U0001D11E", "\U00010877"],                                 # 😀 𝄞 𐡷          (4 bytes)
    "sp": [" "], "tab": ["\t"], "dot": ["."], "star": ["*"], "comma": [","], "eq": ["="],
    "bel": ["\a"], "bs": ["\b"], "ff": ["\f"], "lf": ["\n"], "cr": ["\r"], "vt": ["\v"], "bsl": ["\\"], "dq": ['"'],
}
for _d in "123456789":
    REPS[_d] = [_d]
CLASSES = [("a", "A"), ("b", "B"), ("e2", "E2"), ("c3",), ("g4",)]          # partners share a column
WIDTH_BYTES = {"e2": 2, "E2": 2, "c3": 3, "g4": 4}

# function -> DSL expression over the fields of a row ($s $t $u strings, $i $j ints, $a array or map); spelling only
EXPR = {
    "strlen": "strlen($s)", "toupper": "toupper($s)", "tolower": "tolower($s)", "capitalize": "capitalize($s)",
    "lstrip": "lstrip($s)", "rstrip": "rstrip($s)", "strip": "strip($s)",
    "collapse_whitespace": "collapse_whitespace($s)", "clean_whitespace": "clean_whitespace($s)",
    "index1": "$s[$i]", "slice": "$s[$i:$j]", "substr": "substr($s, $i, $j)", "substr0": "substr0($s, $i, $j)",
    "substr1": "substr1($s, $i, $j)", "truncate": "truncate($s, $i)",
    "leftpad": "leftpad($s, $i, $t)", "rightpad": "rightpad($s, $i, $t)",
    "dot": "$s . $t", "ssub": "ssub($s, $t, $u)", "gssub": "gssub($s, $t, $u)",
    "index": "index($s, $t)", "contains": "contains($s, $t)",
    "splitax": "splitax($s, $t)", "splita": "splita($s, $t)", "splitnv": "splitnv($s, $t)", "splitnvx": "splitnvx($s, $t)",
    "joinv": "joinv($a, $t)", "joink": "joink($a, $t)", "joinkv": "joinkv($a, $t, $u)",
    "join_split": "joinv(splitax($s, $t), $t)", "split_join": "splitax(joinv($a, $t), $t)",
    "splitkvx_joinkv": "splitkvx(joinkv($a, $t, $u), $t, $u)",
    # integer formatting: $n the value, $fmt the format
    "fmtnum": "fmtnum($n, $fmt)", "fmtifnum": "fmtifnum($n, $fmt)", "hexfmt": "hexfmt($n)",
    "fmtnum_s": "fmtnum($n, $fmt)", "fmtifnum_s": "fmtifnum($n, $fmt)",
}
SHOW = ('r = %s; print NR . "|" . typeof(r) . "|" . '
        '(is_error(r) ? "" : ((is_map(r) || is_array(r)) ? json_stringify(r) : r));')
TYPE_NAMES = {"int": "int", "float": "float", "string": "string", "empty": "empty", "boolean": "boolean", "bool": "boolean",
              "error": "error", "absent": "absent", "map": "map", "array": "array", "funct": "funct"}
FAMILIES = ["unary", "index", "pad", "replace", "find", "split", "join", "fmt", "literal"]
BATCH = 4000
LINE = re.compile(r"^(\d+)\|([a-z]+)\|(.*)$", re.S)
ENV = {"LANG": "en_US.UTF-8"}      # "%_d" takes its separator from LANG; the help text promises commas


class Alphabet:
    def __init__(self, seed):
        rnd = random.Random(seed)
        self.rep = {}
        for cls in CLASSES:
            col = rnd.randrange(3)
            for name in cls:
                self.rep[name] = REPS[name][col]
        for name, cands in REPS.items():
            self.rep.setdefault(name, cands[0])
        self.inv = {ch: name for name, ch in self.rep.items()}

    def text(self, toks):
        return "".join(self.rep[t] for t in toks)

    def toks(self, text):
        return [self.inv.get(ch, "other") for ch in text]


def row_of(fam, c, ab):
    if fam == "fmt":
        if c["v"] == "_d":
            fmt = "%" + (str(c["w"]) if c["w"] else "") + "_d"
        else:
            fmt = "%" + "".join(c["F"]) + (str(c["w"]) if c["w"] else "") + c["lm"] + c["v"]
        return {"n": "abc" if c["f"].endswith("_s") else c["n"], "fmt": fmt}
    if c["ks"]:
        coll = {ab.text(k): ab.text(v) for k, v in zip(c["ks"], c["a"])}
    else:
        coll = [ab.text(v) for v in c["a"]]
    return {"s": ab.text(c["s"]), "t": ab.text(c["t"]), "u": ab.text(c["u"]), "i": c["i"], "j": c["j"], "a": coll}


def mlr_case(mlr, f, rows, expr=None):
    body = "".join(json.dumps(r, ensure_ascii=False) + "\n" for r in rows)
    return {"argv": [mlr, "--ijsonl", "put", "-q", SHOW % (expr or EXPR[f])], "stdin": body, "env": ENV,
            "timeout_ms": 60000 + 20 * len(rows), "max_out": 64 << 20}


def literal_of(c, ab):
    """Family "literal": the string is spelled in the DSL text. Returns (expression, row)."""
    if c["f"] == "literal":
        return '"%s"' % ab.text(c["s"]), {"s": ""}
    ch = ab.rep[c["s"][0]]
    kind, cp = c["t"][0], ord(ch)
    esc = c["u"][0] if kind == "named" else {"octal": "\\%03o", "hex": "\\x%02x", "u4": "\\u%04x", "U8": "\\U%08x"}[kind] % cp
    return '"%s" == $s' % esc, {"s": ch}


def evaluate_single(mlr, items):
    """items: [(expression, row)], one process each (a program the lexer rejects must not take other cases with it)."""
    cases = [mlr_case(mlr, None, [row], expr=e) for e, row in items]
    res = vlib.run_cases(cases)
    vlib.confirm_timeouts(cases, res)
    out = []
    for r in res:
        lines = parse_lines(r["stdout"])
        if r["exit"] == 0 and not r["timed_out"] and 1 in lines:
            out.append((0, lines[1][0], lines[1][1], ""))
        else:
            out.append((-2 if r["timed_out"] else (r["exit"] or 1), "fatal", "", r["stderr"][:400]))
    return out, len(cases)


def parse_lines(stdout):
    out = {}
    for line in stdout.split("\n"):
        m = LINE.match(line)
        if m:
            out[int(m.group(1))] = (TYPE_NAMES.get(m.group(2), m.group(2)), m.group(3))
    return out


def evaluate(mlr, f, rows):
    """Runs all rows of one function; returns [(exit, typeof, payload, stderr)] per row. A batch that dies is split until
    the offending rows are alone."""
    results = [None] * len(rows)
    pending = [list(range(i, min(i + BATCH, len(rows)))) for i in range(0, len(rows), BATCH)]
    nproc = 0
    while pending:
        cases = [mlr_case(mlr, f, [rows[i] for i in idxs]) for idxs in pending]
        res = vlib.run_cases(cases)
        vlib.confirm_timeouts(cases, res)
        nproc += len(cases)
        nxt = []
        for idxs, r in zip(pending, res):
            lines = parse_lines(r["stdout"])
            ok = r["exit"] == 0 and not r["timed_out"]
            missing = []
            for k, i in enumerate(idxs, start=1):
                if k in lines and (ok or len(idxs) > 1):
                    results[i] = (0, lines[k][0], lines[k][1], "")
                else:
                    missing.append(i)
            if not missing and ok:
                continue
            if not missing:                 # every row answered and yet the process failed: find out which row does it
                missing = list(idxs)
            if len(idxs) == 1:
                results[idxs[0]] = (-2 if r["timed_out"] else (r["exit"] or 1), "fatal", "", r["stderr"][:400])
            else:
                step = max(1, (len(missing) + 7) // 8)
                nxt += [missing[k:k + step] for k in range(0, len(missing), step)]
        pending = nxt
    return results, nproc


def result_of(t, payload, ab):
    r = {"k": t, "s": [], "n": 0, "a": [], "ks": []}
    if t == "int":
        if re.match(r"^-?[0-9]{1,9}$", payload):
            r["n"] = int(payload)
        else:
            r["s"] = ab.toks(payload)
    elif t == "boolean":
        r["s"] = [payload]
    elif t in ("array", "map"):
        try:
            v = json.loads(payload, object_pairs_hook=lambda ps: ("map", ps))
        except Exception:
            v = None

        def tk(x):
            return ab.toks(x) if isinstance(x, str) else ["other"]
        if t == "array" and isinstance(v, list):
            r["a"] = [tk(x) for x in v]
        elif t == "map" and isinstance(v, tuple):
            r["ks"] = [tk(k) for k, _ in v[1]]
            r["a"] = [tk(x) for _, x in v[1]]
        else:
            r["k"] = "unparsed-" + t
    else:
        r["s"] = ab.toks(payload)
    return r


def nontrivial(fam, c):
    if fam == "fmt":
        return bool(c["F"]) or c["w"] > 0 or c["v"] != "d" or c["lm"] != ""
    if c["f"] == "escape":
        return True
    strings = [c["s"], c["t"], c["u"]] + list(c["a"]) + list(c["ks"])
    return any(ch in WIDTH_BYTES for s in strings for ch in s)


def key_of(fam, c):
    if fam == "fmt":
        return {"family": "printf", "fn": c["f"], "verb": c["v"], "lm": c["lm"], "flags": "".join(sorted(c["F"])), "width": c["w"] > 0}
    n = len(c["s"])

    def cls(i):
        return "zero" if i == 0 else ("in" if -n <= i <= n else "out")
    key = {"family": "strings", "fn": c["f"]}
    if c["f"] in ("index1", "slice", "substr", "substr0", "substr1", "truncate", "leftpad", "rightpad"):
        key["i"] = cls(c["i"])
        key["empty"] = n == 0
    if c["f"] in ("slice", "substr", "substr0", "substr1"):
        key["j"] = cls(c["j"])
    key["multibyte"] = any(ch in WIDTH_BYTES for s in [c["s"], c["t"], c["u"]] + list(c["a"]) + list(c["ks"]) for ch in s)
    if c["f"] == "literal":
        key["max_width"] = max([WIDTH_BYTES.get(ch, 1) for ch in c["s"]] or [0])
    if c["f"] == "escape":
        key["esc"] = c["u"][0] if c["t"][0] == "named" else c["t"][0]
    return key


def run(tier, seed):
    t0 = time.time()
    V = vlib.Verdicts(PROP)
    mlr = vlib.build_mlr()
    thorough = tier == "thorough"
    level = 4 if thorough else 3
    ab = Alphabet(seed)
    cov = {"tlc_runs": [], "samples": [], "representatives": {k: v for k, v in ab.rep.items() if len(REPS[k]) > 1}}

    # ---- the laws of the property on the specification itself ---------------------------------------------------
    laws = b3.check_laws("StringsMC", {"MaxLen": level})
    if laws.violated:
        raise vlib.Inconclusive("Strings.tla / PrintfInt.tla violate their own laws: %s" % laws.violated)
    states, transitions = laws.distinct, laws.generated
    cov["tlc_runs"].append({"module": "StringsMC", "MaxLen": level, "distinct_states": laws.distinct, "result": "no error",
                            "laws": ["LenLaws", "IndexLaws", "TruncateLaws", "PadLaws", "CaseLaws", "WhitespaceLaws", "ReplaceLaws",
                                     "SplitLaws", "WitnessLaws", "ArrayLaws", "FmtLaws"]})

    # ---- the case space, family by family ----------------------------------------------------------------------------
    def gen(fam):
        cases, g = b3.gen_cases("StringsGen", {"Fam": '"%s"' % fam, "L": level}, timeout=3000)
        return fam, cases, g
    with ThreadPoolExecutor(3) as ex:
        gens = list(ex.map(gen, FAMILIES))
    allcases = []          # (family, case)
    for fam, cases, g in gens:
        states += g.distinct
        transitions += g.generated
        cov["tlc_runs"].append({"module": "StringsGen", "family": fam, "cases": len(cases)})
        allcases += [(fam, c) for c in cases]
    vlib.log("[c15] %d cases generated in %.0fs" % (len(allcases), time.time() - t0))

    # ---- evaluation: one process per function and batch ----------------------------------------------------------------
    byfn = {}
    for idx, (fam, c) in enumerate(allcases):
        byfn.setdefault(c["f"], []).append(idx)
    raw = [None] * len(allcases)
    nproc = 0
    vlib.build_harness("runner", tags="")        # (before the threads below use it)

    exprs = {}

    def ev(f):
        idxs = byfn[f]
        if f in ("literal", "escape"):
            items = [literal_of(allcases[i][1], ab) for i in idxs]
            for i, (e, _) in zip(idxs, items):
                exprs[i] = e
            res, n = evaluate_single(mlr, items)
            return f, idxs, [row for _, row in items], res, n
        rows = [row_of(allcases[i][0], allcases[i][1], ab) for i in idxs]
        res, n = evaluate(mlr, f, rows)
        return f, idxs, rows, res, n
    rows_of = {}
    with ThreadPoolExecutor(4) as ex:
        for f, idxs, rows, res, n in ex.map(ev, sorted(byfn)):
            nproc += n
            for i, row, r in zip(idxs, rows, res):
                raw[i] = r
                rows_of[i] = row
    vlib.log("[c15] %d evaluations in %d mlr processes, %.0fs" % (len(allcases), nproc, time.time() - t0))

    # ---- observations ---------------------------------------------------------------------------------------------
    obs = []
    for (fam, c), (rc, t, payload, err) in zip(allcases, raw):
        if fam == "fmt":
            obs.append({"fam": "fmt", "c": c, "exit": rc, "k": t, "out": payload})
        else:
            obs.append({"fam": "str", "c": c, "exit": rc, "r": result_of(t, payload, ab)})
    bad, n = b3.validate("StringsObs", obs, chunk=20000, threads=6)
    states += n
    transitions += n
    for idx, _ in bad:
        fam, c = allcases[idx]
        rc, t, payload, err = raw[idx]
        if rc != 0 and ("panic" in err or "goroutine " in err or rc == -2):
            key = dict(key_of(fam, c), why="crash")
        else:
            key = key_of(fam, c)
        e = exprs.get(idx) or EXPR[c["f"]]
        V.violation(key, {"expression": e, "row": rows_of[idx], "case": c, "exit": rc, "typeof": t, "result": payload,
                          "result_characters": obs[idx].get("r", {}).get("s"), "stderr": err,
                          "replay": "echo '%s' | mlr --ijsonl put -q '%s'" % (json.dumps(rows_of[idx], ensure_ascii=False), SHOW % e)})

    # ---- non-vacuity of the judge: corrupted copies of conforming observations must be reported ------------------------
    badset = {i for i, _ in bad}

    def pick(pred):
        return next((i for i, o in enumerate(obs) if i not in badset and pred(o)), None)
    tests = []
    i1 = pick(lambda o: o["fam"] == "str" and o["c"]["f"] == "strlen" and any(ch in WIDTH_BYTES for ch in o["c"]["s"]))
    if i1 is not None:                      # a strlen that counted bytes
        a = copy.deepcopy(obs[i1])
        a["r"]["n"] = len(ab.text(a["c"]["s"]).encode("utf-8"))
        tests.append(("strlen-in-bytes", a, obs[i1]))
    i2 = pick(lambda o: o["fam"] == "str" and o["c"]["f"] == "substr1" and o["r"]["k"] == "string" and len(o["r"]["s"]) >= 2
              and 1 <= o["c"]["i"] <= o["c"]["j"] <= len(o["c"]["s"]))
    if i2 is not None:                      # a substring one character short
        a = copy.deepcopy(obs[i2])
        a["r"]["s"] = a["r"]["s"][:-1]
        tests.append(("substr1-short", a, obs[i2]))
    i3 = pick(lambda o: o["fam"] == "str" and o["c"]["f"] == "toupper" and "g4" in o["c"]["s"])
    if i3 is not None:                      # a multi-byte character split into bytes
        a = copy.deepcopy(obs[i3])
        p = a["r"]["s"].index("g4")
        a["r"]["s"][p:p + 1] = ["other"] * 4
        tests.append(("byte-split", a, obs[i3]))
    i4 = pick(lambda o: o["fam"] == "fmt" and o["c"]["f"] == "fmtnum" and o["c"]["v"] == "d" and o["c"]["w"] >= 4 and "-" not in o["c"]["F"])
    if i4 is not None:                      # a pad one short
        a = copy.deepcopy(obs[i4])
        a["out"] = a["out"][1:]
        tests.append(("printf-width", a, obs[i4]))
    wanted = ["strlen-in-bytes", "substr1-short", "byte-split", "printf-width"]
    missing = [w for w in wanted if w not in [x[0] for x in tests]]
    fn_of = {"strlen-in-bytes": "strlen", "substr1-short": "substr1", "byte-split": "toupper", "printf-width": "fmtnum"}
    badfns = {allcases[i][1]["f"] for i in badset}
    unexplained = [w for w in missing if fn_of[w] not in badfns]
    if unexplained:
        # (on a tree that breaks the property a function may have no conforming observation left: that is a verdict, not a
        # reason to give up; a candidate missing although the function has no non-conforming observation means a broken case space)
        raise vlib.Inconclusive("observation self-test: no conforming candidate for %s" % ", ".join(unexplained))
    lines = []
    for _, a, o in tests:
        lines += [a, o]
    sb, _ = b3.validate("StringsObs", lines) if lines else ([], 0)
    st = {"ok": [b[0] for b in sb] == list(range(0, 2 * len(tests), 2)), "reported": [b[0] for b in sb],
          "corruptions": [x[0] for x in tests], "skipped_no_conforming_candidate": missing}
    cov["obs_selftest"] = st
    if st["ok"] is False:
        raise vlib.Inconclusive("observation self-test failed: %r" % st)

    # ---- evidence --------------------------------------------------------------------------------------------------
    nt = {json.dumps(c, sort_keys=True) for fam, c in allcases if nontrivial(fam, c)}
    perfn = {f: len(v) for f, v in sorted(byfn.items())}
    for i in (i1, i2, i4, len(obs) // 3):
        if i is None:
            continue
        o = obs[i]
        cov["samples"].append({"expression": exprs.get(i) or EXPR[o["c"]["f"]], "row": rows_of[i], "typeof": raw[i][1], "result": raw[i][2]})
    cov.update({
        "states": states, "transitions": transitions, "traces_validated_against_impl": len(obs),
        "evaluations": len(obs), "distinct_nontrivial": len(nt),
        "rule": "every case of StringsGen.tla at level %d (%s): all strings up to the bound over alphabets of 1-, 2-, 3- and 4-byte "
                "characters x all indices in -(n+2)..n+2, all pads / patterns / separators / arrays / maps of the bound, and integer "
                "formats value x flag set x width x length modifier x verb; non-trivial = an argument contains a multi-byte character, so that counting bytes "
                "and counting characters differ (strings), an escape sequence (literals), any flag, width, length modifier or non-decimal "
                "verb (formats); distinct by case" % (level, ", ".join("%s %d" % (f, k) for f, k in perfn.items())),
        "exhaustive": True, "mlr_processes": nproc, "cases_per_function": perfn,
    })
    rc = V.finish()
    vlib.write_evidence(PROP, tier, seed, time.time() - t0, cov, [
        "only the case-analysis part of C15 is decided: regex functions and captures, md5/sha/crc32, base64/hex, latin1/utf8, float "
        "formats, strftime/strfntime and the verbs that wrap these functions are NOT checked (no TLA+ oracle: DESIGN.md §6)",
        "one representative per abstract character (the seed picks among three per class); characters of a class are assumed to behave "
        "alike; whitespace is space and tab only; no combining marks, no invalid UTF-8",
        "strings come from JSON string fields (never type-inferred) and contain no digits, so type inference of results plays no role",
        "where the help texts are silent the specification admits every reading: substr/substr0/substr1 and truncate outside the string "
        "(error, absent or any substring), a slice bound 0 (error or trimmed), which whitespace character survives a collapsed run, "
        "Unicode or ASCII-only case mapping of non-ASCII letters, which occurrence index() reports, overlapping gssub matches, splitting "
        "the empty string, and for formats the points where C printf and Go fmt differ ('+'/' ' with x X o b, '#' with 0, '#' with '0' and "
        "a width); negative values with x X o b, precisions, %i %u %s are left out",
        "the observation plumbing (NR, typeof, is_error, the dot operator, json_stringify, print) and LANG=en_US.UTF-8 for %_d are trusted",
    ], len(V.violations))
    return rc


def replay(path):
    with open(path) as f:
        v = json.load(f)
    print(json.dumps(v, indent=1, ensure_ascii=False))
    d = v.get("detail", {})
    if "row" in d and "expression" in d:
        mlr = vlib.build_mlr()
        fn = d["case"]["f"]
        r = vlib.run_cases([mlr_case(mlr, fn, [d["row"]], expr=d["expression"])])[0]
        print("now: exit=%s stdout=%r stderr=%r" % (r["exit"], r["stdout"], r["stderr"][:300]))
    return 0
