"""C20 — fan-out outputs are complete, ordered, well-formed for any number of targets.

FanOut.tla: the requirement (each target's file = one well-formed document of exactly its records, Required) and
the implementation (LRU handle cache with eviction and append re-open, Step/ImplFiles). TLC checks Refines on the
model; FanOutGen enumerates every write history up to a bound; each is replayed on the rebuilt binary through the
CLI (redirected tee/emit/print, split -g, pipes) with the block mapping onto the real capacity 256; FanOutObs judges
the files (property) and compares them with ImplFiles (conformance); FanOutTrace validates the cache's hook log."""
import json
import random
import re
import time
from concurrent.futures import ThreadPoolExecutor

import vlib

PROP = "C20"
REAL_CAP = 256
EXT = {"plain": "dkvp", "header": "csv", "bracket": "json"}
OFLAG = {"plain": [], "header": ["--ocsv"], "bracket": ["--ojson"]}


def consts(targets, k, kind, mode, pre, maxw, suspend=True):
    return ("CONSTANTS\n  Targets = {%s}\n  K = %d\n  Kind = \"%s\"\n  Mode = \"%s\"\n  Pre = {%s}\n  MaxWrites = %d\n  Suspend = %s\n" % (
        ", ".join(str(t) for t in targets), k, kind, mode, ", ".join(str(t) for t in pre), maxw, "TRUE" if suspend else "FALSE"))


def tname(t, j):
    return "T%dx%d" % (t, j)


PAIR = {1: ("x,y", "z"), 2: ("x", "y,z"), 3: ("p", "q")}     # group-by values whose comma-joined forms collide for targets 1 and 2


def render_split2(mlr, hist, kind, mode):
    """split -g a,b with values needing escaping in file names (commas): input as CSV, targets found by listing."""
    import csv
    import io
    buf = io.StringIO()
    w = csv.writer(buf, lineterminator="\n")
    w.writerow(["a", "b", "t", "i"])
    for t, r in hist:
        w.writerow([PAIR[t][0], PAIR[t][1], tname(t, 0), r])
    oflag = {"plain": ["--ojsonl"], "header": ["--ocsv"], "bracket": ["--ojson"]}[kind]
    argv = [mlr, "--icsv"] + oflag + ["split", "-g", "a,b", "--prefix", "out"] + (["-a"] if mode == "append" else []) + ["in.csv"]
    return {"argv": argv, "files": {"in.csv": buf.getvalue()}, "collect": True, "timeout_ms": 12000, "env": {}}


def observe_split2(res, hist, kind, ntargets):
    import csv
    import io
    got = res.get("files") or {}
    files = [[] for _ in range(ntargets)]
    uniform = True
    for name, text in sorted(got.items()):
        if not name.startswith("out_"):
            continue
        toks, owner = [], None
        if kind == "header":
            for row in csv.reader(io.StringIO(text)):
                if row == ["a", "b", "t", "i"]:
                    toks.append(["H"])
                elif len(row) == 4 and row[3].isdigit():
                    toks.append(["R", int(row[3])])
                    owner = owner or row[2]
                else:
                    toks.append(["BAD", ",".join(row)[:40]])
        else:
            if kind == "bracket":
                try:
                    val = json.loads(text)
                    docs = [val] if isinstance(val, list) else None
                except ValueError:
                    docs = None
                if docs is None:
                    toks = tokenize(text, "bracket")
                    for x in re.findall(r'"t": "(T\dx0)"', text)[:1]:
                        owner = x
                else:
                    toks.append(["O"])
                    for x in docs[0]:
                        toks.append(["R", x.get("i", -1)])
                        owner = owner or x.get("t")
                    toks.append(["C"])
            else:
                for line in text.split("\n"):
                    if line == "":
                        continue
                    try:
                        x = json.loads(line)
                        toks.append(["R", x.get("i", -1)])
                        owner = owner or x.get("t")
                    except ValueError:
                        toks.append(["BAD", line[:40]])
        m = re.match(r"T(\d)x0", owner or "")
        if not m:
            uniform = False
            continue
        t = int(m.group(1))
        if files[t - 1]:
            uniform = False         # two files for one target
        files[t - 1] = toks
    return {"hist": [list(x) for x in hist], "files": files, "uniform": uniform}


# how the target's path is SPELLED by the program (the same file whichever way): (text in front of the name, directory the
# file is then found in)
SPELLS = {"clean": ("", ""), "dotslash": ("./", ""), "dslash": ("d//", "d/"), "dotmid": ("d/./", "d/"), "updown": ("d/../", "")}
SPELL_NAMES = sorted(SPELLS)


VOLUME = 700


def render(mlr, hist, kind, mode, pre, block, form, spell="clean"):
    if form == "split2":
        return render_split2(mlr, hist, kind, mode), ""
    ext = EXT[kind]
    front, where = SPELLS[spell]
    lines = []
    for t, r in hist:
        for j in range(block):
            lines.append("t=%s,i=%d\n" % (tname(t, j), r))
    files = {"in.dkvp": "".join(lines), "d/.keep": ""}
    prefix = where + ("out_" if form == "split" else "")
    for t in pre:
        for j in range(block):
            files["%s%s.%s" % (prefix, tname(t, j), ext)] = "PRE\n"
    op = ">" if mode == "write" else ">>"
    argv = [mlr] + OFLAG[kind]
    name = '"%s".$t.".%s"' % (front, ext)
    if form == "tee":
        argv += ["put", "-q", 'tee %s %s, $*' % (op, name)]
    elif form == "emit":
        argv += ["put", "-q", 'emit %s %s, $*' % (op, name)]
    elif form == "emit-mapexpr":
        argv += ["put", "-q", 'emit %s %s, mapsum({"t": $t}, {"i": $i})' % (op, name)]
    elif form == "print":
        argv += ["put", "-q", 'print %s %s, "t=".$t.",i=".$i' % (op, name)]
    elif form == "split":
        argv += ["split", "-g", "t", "--prefix", front + "out"] + (["-a"] if mode == "append" else [])
    elif form == "pipe":
        argv += ["put", "-q", 'tee | "cat %s %s".$t.".%s", $*' % (op, front, ext)]
    else:
        raise ValueError(form)
    argv += ["in.dkvp"]
    return {"argv": argv, "files": files, "collect": True, "timeout_ms": 12000,
            "env": {"MLR_VERIF_TRACE": "trace.ndjson"}}, prefix


_rec_dkvp = re.compile(r"^t=\w+,i=(\d+)$")
_rec_csv = re.compile(r"^\w+,(\d+)$")


def tokenize(text, kind):
    toks = []
    if text.startswith("PRE\n"):
        toks.append(["X"])
        text = text[4:]
    if kind == "bracket":
        dec = json.JSONDecoder()
        pos = 0
        n = len(text)
        while True:
            while pos < n and text[pos] in " \t\r\n":
                pos += 1
            if pos >= n:
                break
            try:
                val, pos = dec.raw_decode(text, pos)
            except ValueError:
                toks.append(["BAD"])
                break
            if isinstance(val, list):
                toks.append(["O"])
                for x in val:
                    toks.append(["R", x.get("i", -1)] if isinstance(x, dict) else ["BAD"])
                toks.append(["C"])
            elif isinstance(val, dict):
                toks.append(["R", val.get("i", -1)])
            else:
                toks.append(["BAD"])
        return toks
    lines = text.split("\n")
    if lines and lines[-1] == "":
        lines.pop()
    for line in lines:
        if kind == "header" and line == "t,i":
            toks.append(["H"])
            continue
        m = (_rec_csv if kind == "header" else _rec_dkvp).match(line)
        toks.append(["R", int(m.group(1))] if m else ["BAD", line[:40]])
    return toks


def observe(res, hist, kind, ntargets, block, prefix):
    ext = EXT[kind]
    got = res.get("files") or {}
    files = []
    uniform = True
    for t in range(1, ntargets + 1):
        per = []
        for j in range(block):
            name = "%s%s.%s" % (prefix, tname(t, j), ext)
            per.append(tokenize(got[name], kind) if name in got else [])
        if any(p != per[0] for p in per):
            uniform = False
        files.append(per[0])
    return {"hist": [list(x) for x in hist], "files": files, "uniform": uniform}


def lookups(res, block):
    ev = []
    pending = 0
    raw = []
    for line in ((res.get("files") or {}).get("trace.ndjson", "")).splitlines():
        if line.strip().endswith("}"):
            try:
                raw.append(json.loads(line))
            except ValueError:
                pass
    raw.sort(key=lambda e: e["n"])

    def tid(fn):
        m = re.search(r"T(\d+)x(\d+)\.", fn)
        return (int(m.group(1)) - 1) * block + int(m.group(2)) + 1 if m else -1
    for e in raw:
        if e["site"] == "fo.evict":
            pending = tid(e["a"][0])
        elif e["site"] == "fo.open":
            ev.append({"t": tid(e["a"][0]), "hit": False, "evict": pending, "append": bool(e["a"][1])})
            pending = 0
        elif e["site"] == "fo.hit":
            ev.append({"t": tid(e["a"][0]), "hit": True, "evict": 0, "append": False})
    return ev


def run(tier, seed):
    t0 = time.time()
    rnd = random.Random(seed)
    V = vlib.Verdicts(PROP)
    mlr = vlib.build_mlr()
    thorough = tier == "thorough"
    cov = {"tlc_runs": [], "samples": [], "model_drift": []}
    states = transitions = 0
    targets = [1, 2, 3]

    # ---- 1. refinement on the model -------------------------------------------------------------
    mc = []
    for kind in ("plain", "header", "bracket"):
        for mode in ("write", "append"):
            for k in (1, 2, 3):
                for pre in ([], [1]):
                    mc.append((kind, mode, k, pre))

    def mc_one(a):
        kind, mode, k, pre = a
        cfg = "SPECIFICATION Spec\n" + consts(targets, k, kind, mode, pre, 7 if thorough else 6) + \
              "INVARIANTS Refines AtMostKOpen OpenNotEvicted CompleteAndOrdered\nCHECK_DEADLOCK TRUE\n"
        return a, vlib.tlc("FanOut", cfg="gen.cfg", extra_files={"gen.cfg": cfg}, workers=2, timeout=3000)
    with ThreadPoolExecutor(8) as ex:
        mcres = list(ex.map(mc_one, mc))
    model_breaks = set()
    for (kind, mode, k, pre), r in mcres:
        if r.error:
            raise vlib.Inconclusive("TLC error on FanOut: %s\n%s" % (r.error, r.out[-1500:]))
        states += r.distinct
        transitions += r.generated
        cov["tlc_runs"].append({"module": "FanOut", "kind": kind, "mode": mode, "K": k, "pre": pre,
                                "distinct_states": r.distinct, "result": r.violated or "no error"})
        if r.violated:
            if r.violated != "Refines":
                raise vlib.Inconclusive("FanOut model violates %s" % r.violated)
            model_breaks.add((kind, k))
    cov["model_refinement_fails_for"] = sorted(list(x) for x in model_breaks)
    # self-test of the design check: the pinned tree's design (eviction closes the handler, the re-open starts a fresh
    # record writer) must still be refuted by TLC for documents with a header or brackets
    st_design = []
    for kind in ("header", "bracket"):
        cfg = "SPECIFICATION Spec\n" + consts(targets, 1, kind, "write", [], 5, suspend=False) + "INVARIANTS Refines\nCHECK_DEADLOCK TRUE\n"
        r = vlib.tlc("FanOut", cfg="gen.cfg", extra_files={"gen.cfg": cfg}, workers=2, timeout=3000)
        st_design.append({"kind": kind, "Suspend": False, "result": r.violated or r.error or "no error"})
        if r.violated != "Refines":
            raise vlib.Inconclusive("design self-test: the close-on-eviction design was not refuted for %s: %r" % (kind, r.violated or r.error))
    cov["design_selftest"] = st_design

    # ---- 2. every history, on the real binary ------------------------------------------------------
    maxw_evict = 5 if thorough else 4
    maxw_free = 6 if thorough else 5
    combos = []
    for kind in ("plain", "header", "bracket"):
        for mode in ("write", "append"):
            for k, block, maxw in ((1, REAL_CAP, maxw_evict), (2, REAL_CAP // 2, maxw_evict), (3, 1, maxw_free)):
                for pre in ([], [1]):
                    combos.append((kind, mode, k, block, maxw, pre))

    def gen_one(c):
        kind, mode, k, block, maxw, pre = c
        cfg = "SPECIFICATION Spec\n" + consts(targets, k, kind, mode, pre, maxw) + "INVARIANT Emit\nCHECK_DEADLOCK FALSE\n"
        g = vlib.tlc("FanOutGen", cfg="gen.cfg", extra_files={"gen.cfg": cfg}, workers=1, timeout=3000)
        if not g.ok:
            raise vlib.Inconclusive("FanOutGen failed: %s" % (g.error or g.violated))
        return [p["hist"] for p in g.printed]
    with ThreadPoolExecutor(8) as ex:
        hists = list(ex.map(gen_one, combos))
    forms_for = {"plain": ["tee", "emit-mapexpr", "print", "split"], "header": ["tee", "emit-mapexpr", "split"],
                 "bracket": ["tee", "emit-mapexpr", "split"]}
    runs = []
    for c, hs in zip(combos, hists):
        kind, mode, k, block, maxw, pre = c
        for n, h in enumerate(hs):
            fl = forms_for[kind] if (thorough or block == 1) else [forms_for[kind][n % len(forms_for[kind])]]
            if block > 1 and not thorough and len(h) == maxw and n % 2:
                continue        # quick tier: half of the longest eviction histories
            for form in fl:
                runs.append((c, h, form))
            if block == 1 and kind != "bracket" and n % 3 == 0:
                runs.append((c, h, "pipe"))
            if block == 1 and not pre and (thorough or n % 2 == 0):
                runs.append((c, h, "split2"))       # two group-by fields, values that need escaping in file names
    # volume: the same histories with every write standing for VOLUME consecutive records to that target (a target that
    # receives hundreds of records while it is open; record ids r*1000+j keep the order observable)
    vol = [(c, h, form) for (c, h, form) in runs if c[3] == 1 and form not in ("split2",) and len(h) >= 3 and len({t for t, r in h}) >= 2]
    rnd.shuffle(vol)
    seen_forms = {}
    for c, h, form in vol:
        key = (c[0], c[1], form)
        if seen_forms.get(key, 0) >= (3 if thorough else 1):
            continue
        seen_forms[key] = seen_forms.get(key, 0) + 1
        runs.append((c, [[t, r * 1000 + j] for t, r in h for j in range(VOLUME)], form))
    cov["volume_runs"] = sum(seen_forms.values())
    cases, prefixes = [], []
    for n, ((kind, mode, k, block, maxw, pre), h, form) in enumerate(runs):
        # the spelling of the paths rotates over the runs (every second run keeps the plain one)
        spell = "clean" if n % 2 == 0 else SPELL_NAMES[(n // 2) % len(SPELL_NAMES)]
        case, prefix = render(mlr, h, kind, mode, pre, block, form, spell)
        case["_spell"] = spell
        cases.append(case)
        prefixes.append(prefix)
    res = vlib.run_cases(cases)
    vlib.confirm_timeouts(cases, res)
    by_combo = {}
    for idx, ((c, h, form), rr, prefix) in enumerate(zip(runs, res, prefixes)):
        kind, mode, k, block, maxw, pre = c
        if rr["timed_out"]:
            V.violation({"why": "hang", "form": form, "kind": kind}, {"argv": cases[idx]["argv"][1:], "hist": h})
            continue
        if rr["exit"] != 0:
            V.violation({"why": "run failed", "form": form, "kind": kind},
                        {"argv": cases[idx]["argv"][1:], "hist": h, "stderr": rr["stderr"][:1000]})
            continue
        o = observe_split2(rr, h, kind, len(targets)) if form == "split2" else observe(rr, h, kind, len(targets), block, prefix)
        by_combo.setdefault(c[:3] + (tuple(c[5]),), []).append((idx, o))

    def obs_one(item):
        key, lst = item
        kind, mode, k, pre = key
        text = "".join(json.dumps(o) + "\n" for _, o in lst)
        cfg = "INIT OInit\nNEXT ONext\n" + consts(targets, k, kind, mode, list(pre), 9) + \
              "  ObsFile = \"obs.ndjson\"\nINVARIANT Conforms\nCHECK_DEADLOCK FALSE\n"
        r = vlib.tlc("FanOutObs", cfg="gen.cfg", extra_files={"gen.cfg": cfg, "obs.ndjson": text}, workers=1, timeout=3000)
        if r.error or r.violated or r.distinct != len(lst):
            raise vlib.Inconclusive("FanOutObs failed: %s\n%s" % (r.error or r.violated, r.out[-2000:]))
        return key, lst, r
    with ThreadPoolExecutor(8) as ex:
        ores = list(ex.map(obs_one, by_combo.items()))
    n_drift = 0
    for key, lst, r in ores:
        kind, mode, k, pre = key
        states += r.distinct
        transitions += r.distinct
        bad = {p["line"]: p["why"] for p in r.printed if isinstance(p, dict) and "why" in p}
        drift = {p["line"] for p in r.printed if isinstance(p, dict) and p.get("drift")}
        for ln in sorted(set(bad) | drift):
            idx, o = lst[ln - 1]
            (c, h, form) = runs[idx]
            if ln in drift:
                n_drift += 1
                if len(cov["model_drift"]) < 20:
                    cov["model_drift"].append({"kind": kind, "mode": mode, "K": k, "form": form, "hist": h, "files": o["files"]})
            if ln in bad:
                fk = {"why": bad[ln], "kind": kind}
                if ln not in drift:
                    # the files are exactly what the implementation model predicts: the modelled defect
                    fk = {"shape": "reopen-after-eviction-starts-a-new-document", "kind": kind}
                V.violation(fk, {"argv": cases[idx]["argv"][1:], "hist": h, "model_K": k, "block": c[3], "mode": mode,
                                 "pre": list(pre), "files": o["files"], "why": bad[ln]})
    cov["samples"].append({"kind": "history replay", "argv": cases[0]["argv"][1:], "hist": runs[0][1]})
    cov["samples"].append({"kind": "history replay", "argv": cases[len(cases) // 2]["argv"][1:], "hist": runs[len(cases) // 2][1],
                           "block": runs[len(cases) // 2][0][3]})

    # ---- 3. the cache's hook log against the implementation model (B1) ------------------------------
    tr = []
    pick = [i for i, (c, h, form) in enumerate(runs) if c[3] > 1 and form != "pipe" and len(h) >= 3]
    rnd.shuffle(pick)
    for i in pick[:(60 if thorough else 16)]:
        c, h, form = runs[i]
        ev = lookups(res[i], c[3])
        if ev:
            tr.append({"ev": ev, "_i": i})
    rejected = []
    if tr:
        text = "".join(json.dumps({"ev": x["ev"]}) + "\n" for x in tr)
        nt = 3 * REAL_CAP
        cfg = ("INIT TInit\nNEXT TNext\nCONSTANTS\n  Targets <- TraceTargets\n  K = %d\n  Kind = \"plain\"\n  Mode = \"write\"\n"
               "  Pre = {}\n  MaxWrites = 0\n  Suspend = TRUE\n  TraceFile = \"traces.ndjson\"\nCONSTRAINT Track\nPOSTCONDITION Report\nCHECK_DEADLOCK FALSE\n" % REAL_CAP)
        mod = ("---- MODULE FanOutTraceMC ----\nEXTENDS FanOutTrace\nTraceTargets == 1..%d\n====\n" % nt)
        # write-mode traces only (the append flag of a first open depends on the mode)
        wr = [x for x in tr if runs[x["_i"]][0][1] == "write"]
        ap = [x for x in tr if runs[x["_i"]][0][1] == "append"]
        for part, mode in ((wr, "write"), (ap, "append")):
            if not part:
                continue
            text = "".join(json.dumps({"ev": x["ev"]}) + "\n" for x in part)
            r = vlib.tlc("FanOutTraceMC", cfg="gen.cfg", extra_files={"gen.cfg": cfg.replace('Mode = "write"', 'Mode = "%s"' % mode),
                                                                    "FanOutTraceMC.tla": mod, "traces.ndjson": text},
                         workers=1, timeout=3000)
            if r.error:
                raise vlib.Inconclusive("FanOutTrace failed: %s\n%s" % (r.error, r.out[-2000:]))
            states += r.distinct
            transitions += r.generated
            for p in r.printed:
                if isinstance(p, dict) and "rejected" in p:
                    rejected.append({"run": part[p["rejected"] - 1]["_i"], "matched": p["matched"], "total": p["total"]})
    cov["trace_validation"] = {"traces": len(tr), "lookups": sum(len(x["ev"]) for x in tr), "rejected": len(rejected)}
    for rj in rejected[:10]:
        c, h, form = runs[rj["run"]]
        cov["model_drift"].append({"cache_trace_rejected": True, "hist": h, "form": form, "matched": rj["matched"], "total": rj["total"]})
    # self-test of the trace binding
    rejruns = {rj["run"] for rj in rejected}
    tr = [x for x in tr if x["_i"] not in rejruns]
    if tr:
        import copy
        a = copy.deepcopy(tr[0]["ev"])
        flip = next((i for i, e in enumerate(a) if e["evict"]), None)
        if flip is not None:
            a[flip]["evict"] = a[flip]["evict"] % (3 * REAL_CAP) + 1
            mode = runs[tr[0]["_i"]][0][1]
            text = json.dumps({"ev": a}) + "\n" + json.dumps({"ev": tr[0]["ev"]}) + "\n"
            r = vlib.tlc("FanOutTraceMC", cfg="gen.cfg", extra_files={"gen.cfg": cfg.replace('Mode = "write"', 'Mode = "%s"' % mode),
                                                                    "FanOutTraceMC.tla": mod, "traces.ndjson": text}, workers=1, timeout=3000)
            got = sorted(p["rejected"] for p in r.printed if isinstance(p, dict) and "rejected" in p)
            cov["trace_selftest"] = {"ok": got == [1], "rejected": got}
            if got != [1]:
                raise vlib.Inconclusive("FanOut trace self-test failed: %r" % got)

    rc = V.finish()
    distinct = {json.dumps([c[:3], c[5], h, form]) for c, h, form in runs}
    cov.update({
        "states": states, "transitions": transitions,
        "traces_validated_against_impl": len(runs),
        "evaluations": len(runs),
        "distinct_nontrivial": len({json.dumps([c[:3], c[5], h, form]) for c, h, form in runs if len({t for t, r in h}) >= 2}),
        "rule": "write histories enumerated by TLC from FanOut.tla (all sequences over 3 targets up to the bound) x document "
                "kind x write/append x cache capacity (block mapping onto 256) x pre-existing files x CLI form; non-trivial = "
                "at least two distinct targets; distinct by (configuration, history, form)",
        "histories_with_drift": n_drift,
        "exhaustive": True,
        "real_files_checked_per_abstract_target": "all members of the block (uniformity required)",
    })
    vlib.write_evidence(PROP, tier, seed, time.time() - t0, cov, [
        "a model cache of capacity K over abstract targets is mapped onto the code's constant capacity 256 by blocks of 256/K "
        "real targets always written in sequence",
        "files are tokenised by the harness (header line, records, JSON top-level values); every judgement is FanOutObs.tla's",
        "histories are bounded (<= 4-6 writes over 3 targets); record contents are a target name and an id",
    ], len(V.violations))
    return rc


def replay(path):
    with open(path) as f:
        print(f.read())
    return 0
