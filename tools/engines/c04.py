"""C04 — output independent of batching and scheduling; every run terminates; --seed; tail -f.

Decided by Pipeline.tla: (1) TLC explores every interleaving of bounded configurations and checks
OutputCorrect / PrefixOrder / SuccessDeterministic / deadlock freedom / Termination; (2) the same
configurations are executed on the rebuilt binary and PipelineObs.tla judges the outcomes (B3);
(3) hook traces of real runs are validated against the specification (B1); (4) every controlled
hook site is delayed in turn on the real binary (schedule forcing) and the outcomes judged again."""
import json
import random
import time

import pipeline
import vlib

PROP = "C04"


def finding_key(cfg, why):
    chain = cfg["chain"]
    kinds = [v["k"] for v in chain]
    key = {"why": why}
    for i, k in enumerate(kinds):
        if k == "print" and "head" in kinds[i + 1:]:
            key["shape"] = "stdout-text-upstream-of-early-exit-head"
    return key


def run(tier, seed):
    t0 = time.time()
    rnd = random.Random(seed)
    V = vlib.Verdicts(PROP)
    mlr = vlib.build_mlr()
    thorough = tier == "thorough"
    cov = {"tlc_runs": [], "samples": [], "model_drift": []}
    states = transitions = 0

    # ---- 1. the design, exhaustively -------------------------------------------------------
    mc_plan = [
        # family, maxlen, batch sizes, trailing, liveness
        ("plain", 2, [1, 2, 3], True, False),
        ("heads", 2, [1, 2, 3], True, False),
        ("seqgen", 2, [1], True, False),
        ("plain", 2, [1, 2, 3], False, False),
        ("plain", 1, [1, 2], True, True),
        ("heads", 2, [1, 2], False, True),
        ("tailf", 2, [1], True, False),          # input fed line by line, flush per record: invariant TailF
    ]
    if thorough:
        mc_plan += [
            ("heads", 3, [1, 2, 3], True, False),
            ("plain", 3, [1, 2], False, False),
            ("seqgen", 3, [1], True, False),
            ("heads", 2, [1, 2, 3], True, True),
            ("plain", 2, [1, 2, 3], False, True),
        ]
    design_violations = []
    for fam, ml, bs, tr, live in mc_plan:
        r = pipeline.run_mc(fam, ml, bs, trailing=tr, liveness=live, timeout=7200 if thorough else 1500)
        if r.error:
            raise vlib.Inconclusive("TLC error on %s: %s\n%s" % (fam, r.error, r.out[-2000:]))
        states += r.distinct
        transitions += r.generated
        cov["tlc_runs"].append({"module": "MCPipeline", "family": fam, "max_len": ml, "batch_sizes": bs,
                                "trailing_verb": tr, "liveness": live, "distinct_states": r.distinct,
                                "states_generated": r.generated, "depth": r.depth, "result": r.violated or "no error",
                                "wall_s": round(r.wall, 1)})
        if r.violated:
            design_violations.append((fam, r.violated))
    # the schedule-dependent design point (text printed upstream of an early-exit head): the model
    # must show it, the real binary is probed for it below
    r = pipeline.run_mc("printhead", 2, [1, 2, 3], timeout=600)
    states += r.distinct
    transitions += r.generated
    cov["tlc_runs"].append({"module": "MCPipeline", "family": "printhead", "distinct_states": r.distinct,
                            "states_generated": r.generated, "result": r.violated or "no error",
                            "note": "expected: OutputCorrect violated (known finding)"})
    model_predicts_printhead = r.violated == "OutputCorrect"
    # sensitivity of the model: with blocking done-sends (the code before the fix) TLC must find the deadlock
    r = pipeline.run_mc("heads", 2, [2], blocking=True, timeout=600)
    cov["tlc_runs"].append({"module": "MCPipeline", "family": "heads", "done_send_blocking": True,
                            "distinct_states": r.distinct, "result": r.violated or "no error",
                            "note": "self-test: pre-fix design must deadlock"})
    if r.violated != "deadlock":
        raise vlib.Inconclusive("self-test failed: blocking done-sends did not deadlock in the model")
    r = pipeline.run_mc("tailf", 1, [2], invariants="TailFAnyBatch", timeout=600)
    cov["tlc_runs"].append({"module": "MCPipeline", "family": "tailf", "batch_sizes": [2], "invariant": "TailFAnyBatch",
                            "distinct_states": r.distinct, "result": r.violated or "no error",
                            "note": "self-test: with batch size 2 the tail -f claim must fail in the model"})
    if r.violated != "TailFAnyBatch":
        raise vlib.Inconclusive("self-test failed: the tail -f claim is not sensitive to the batch size in the model")

    # ---- 2. the same configurations on the real binary (B3) ----------------------------------
    plan = [("plain", 2, [1, 2, 3], True), ("heads", 2, [1, 2, 3], True), ("seqgen", 2, [1], True),
            ("plain", 2, [1, 2, 3], False)]
    if thorough:
        plan += [("heads", 3, [1, 2, 3], True), ("plain", 3, [1, 2, 5], True)]
    cfgs_tr, cfgs_notr = [], []
    for fam, ml, bs, tr in plan:
        got = pipeline.gen_configs(fam, ml, bs, trailing=tr)
        (cfgs_tr if tr else cfgs_notr).extend(got)
    runs = []   # (cfg, variant)
    for c in cfgs_tr:
        runs.append((c, {"fmt": "dkvp"}))
    seq_free = [c for c in cfgs_tr if c["chain"][0]["k"] != "seqgen"]
    extra_variants = [
        {"fmt": "csv"}, {"fmt": "nidx"},
        {"fmt": "dkvp", "flags": ["--nr-progress-mod", "1"]},
        {"fmt": "dkvp", "flags": ["--no-hash-records"]},
        {"fmt": "dkvp", "flags": ["--hash-records"]},
        {"fmt": "dkvp", "env": {"GOMAXPROCS": "1"}},
        {"fmt": "dkvp", "env": {"GOMAXPROCS": "2"}},
        {"fmt": "csv", "env": {"GOMAXPROCS": "1"}},
    ]
    n_extra = len(seq_free) if thorough else min(len(seq_free), 600)
    for v in extra_variants:
        for c in rnd.sample(seq_free, n_extra):
            runs.append((c, v))
    for c in cfgs_notr:
        if c["chain"][0]["k"] != "seqgen":
            runs.append((c, {"fmt": "json"}))
    # runs that fail: "a run that fails under one setting fails under all", and it terminates -- three and more input-side
    # errors under every batch size (the design itself is model-checked with this family by C17)
    for c in pipeline.gen_configs("manyfaults", 2, [1, 2, 3]):
        runs.append((c, {"fmt": "csv"}))
        runs.append((c, {"fmt": "csv", "env": {"GOMAXPROCS": "1"}}))
    # perturbed schedules
    n_pert = 4000 if thorough else 1200
    for _ in range(n_pert):
        c = rnd.choice(cfgs_tr)
        runs.append((c, {"fmt": "dkvp", "env": {"MLR_VERIF_PERTURB": str(rnd.randrange(1, 10**9))}}))
    cases = [pipeline.render(c, mlr, v) for c, v in runs]
    res = vlib.run_cases(cases)
    vlib.confirm_timeouts(cases, res)
    obs = [pipeline.observe(c, k, r) for (c, v), k, r in zip(runs, cases, res)]
    bad, nobs = pipeline.validate_obs(obs)
    states += nobs
    transitions += nobs
    executed = len(cases)
    for (c, v), k, r in zip(runs, cases, res):
        if pipeline.is_crash(r):
            V.violation({"why": "crash", "argv": k["argv"][1:]}, {"case": k, "result": r})
    for idx, why in bad:
        c, v = runs[idx]
        key = finding_key(c, why)
        V.violation(key, {"why": why, "cfg": c, "variant": v, "argv": cases[idx]["argv"][1:],
                          "files": cases[idx]["files"], "observed": {k: obs[idx][k] for k in ("out", "exit", "timedout", "tee")},
                          "stderr": res[idx]["stderr"][:2000]})
    distinct_cfgs = {json.dumps(c, sort_keys=True) for c, v in runs}
    nontrivial = {json.dumps(c, sort_keys=True) for c, v in runs
                  if sum(len(f) for f in c["files"]) > c["b"] or c["chain"][0]["k"] == "seqgen"}
    cov["samples"].append({"kind": "B3 case", "argv": cases[0]["argv"][1:], "files": cases[0]["files"],
                           "observed": obs[0]["out"], "exit": obs[0]["exit"]})
    mid = len(cases) // 2
    cov["samples"].append({"kind": "B3 case", "argv": cases[mid]["argv"][1:], "files": cases[mid]["files"],
                           "env": cases[mid]["env"], "observed": obs[mid]["out"], "exit": obs[mid]["exit"]})

    # ---- 2b. the known schedule-dependent shape, on the real binary ---------------------------
    ph = printhead_probe(mlr, V)
    cov["printhead_probe"] = ph
    if ph["differs"] and not model_predicts_printhead:
        raise vlib.Inconclusive("real binary shows print/head schedule dependence the model does not predict")

    # ---- 3. hook traces of real runs against the specification (B1) ---------------------------
    n_tr = 1500 if thorough else 220
    pool = [c for c in cfgs_tr if len(c["chain"]) <= 3]
    tr_runs = []
    for _ in range(n_tr):
        c = rnd.choice(pool)
        env = {"MLR_VERIF_TRACE": "trace.ndjson"}
        if rnd.random() < 0.5:
            env["MLR_VERIF_PERTURB"] = str(rnd.randrange(1, 10**9))
        if rnd.random() < 0.3:
            env["GOMAXPROCS"] = rnd.choice(["1", "2"])
        tr_runs.append((c, {"fmt": "dkvp", "env": env}))
    tcases = [pipeline.render(c, mlr, v) for c, v in tr_runs]
    tres = vlib.run_cases(tcases)
    norm = []
    for (c, v), r in zip(tr_runs, tres):
        raw = [json.loads(line) for line in (r.get("files") or {}).get("trace.ndjson", "").splitlines()
               if line.strip().endswith("}")]
        c = dict(c)
        c["sgp"] = 500      # the producer's batch size is a constant of the code
        norm.append(pipeline.normalize_trace(raw, c))
    executed += len(tcases)
    rejected, tstats = validate_in_chunks(norm)
    states += tstats["distinct"]
    transitions += tstats["generated"]
    events = sum(len(r["m"]) + len(r["r"]) + len(r["l"]) + len(r["w"]) + sum(len(x) for x in r["v"]) for r in norm)
    cov["trace_validation"] = {"traces": len(norm), "events": events, "rejected": len(rejected),
                               "tlc_distinct_states": tstats["distinct"]}
    cov["samples"].append({"kind": "B1 trace (verb 1 log)", "cfg": norm[0]["cfg"], "events": norm[0]["v"][0][:12]})
    # self-test of the binding: a corrupted trace must be rejected
    st = trace_selftest(norm, rejected)
    cov["trace_selftest"] = st
    if st["ok"] is False:
        raise vlib.Inconclusive("trace-validation self-test failed: a corrupted trace was accepted: %r" % st)
    drift_sites = set()
    for rj in rejected:
        if "rejected" in rj:
            run = norm[rj["rejected"] - 1]
            cov["model_drift"].append({"cfg": run["cfg"], "matched": rj["matched"], "total": rj["total"]})
        else:
            cov["model_drift"].append(rj)

    # ---- 4. schedule forcing: delay every controlled site in turn ------------------------------
    sweep_cfgs = rnd.sample(pool, 40 if not thorough else 200)
    if cov["model_drift"]:
        # drift-directed: many more real executions, concentrated on the configurations whose
        # traces the specification could not explain
        sweep_cfgs += [d["cfg"] for d in cov["model_drift"] if "cfg" in d][:100]
    sw = delay_sweep(mlr, sweep_cfgs, V, rnd)
    executed += sw["runs"]
    states += sw["runs"]
    transitions += sw["runs"]
    cov["delay_sweep"] = {k: sw[k] for k in ("runs", "sites", "configs")}

    # ---- 4b. the reference's own example commands under several batch sizes ---------------------
    db = docs_batch_sweep(mlr, V, thorough)
    executed += db["runs"]
    states += db["runs"]
    transitions += db["runs"]
    cov["docs_batch_sweep"] = db

    ds = dsl_batch_sweep(mlr, V, thorough)
    executed += ds["runs"]
    states += ds["runs"]
    transitions += ds["runs"]
    cov["dsl_batch_sweep"] = ds

    # ---- 5. --seed reproducibility ------------------------------------------------------------
    sd = seed_check(mlr, V, thorough)
    executed += sd["runs"]
    cov["seed_check"] = sd

    # ---- 6. tail -f contract -------------------------------------------------------------------
    tf = tailf_check(mlr, V, thorough)
    executed += tf["feeds"]
    cov["tail_f"] = tf

    rb = reader_batch_sweep(mlr, V, thorough)
    executed += rb["runs"]
    cov["reader_batch_sweep"] = rb

    for fam, inv in design_violations:
        # a violation in the design is a verdict only if the real binary shows it: the B3/B1/sweep
        # runs above executed every configuration of these families
        cov["model_drift"].append({"design_violation": inv, "family": fam,
                                   "note": "TLC counterexample on the specification; real runs judged separately"})

    rc = V.finish()
    cov.update({
        "states": states, "transitions": transitions,
        "traces_validated_against_impl": executed,
        "evaluations": executed,
        "distinct_nontrivial": len(nontrivial),
        "rule": "configurations enumerated by TLC from PipeConfigs.tla (chains x file lists x batch sizes), each run on "
                "the rebuilt binary under format/flag/CPU/perturbation variants; non-trivial = input spans more than "
                "one batch or the chain starts with a producer; distinct by configuration",
        "distinct_configurations": len(distinct_cfgs),
        "exhaustive": True,
        "explanation": "exhaustive = every configuration of the listed families was model-checked over all interleavings "
                       "and executed at least once on the real binary; schedules of the real binary are sampled",
    })
    if design_violations and rc == 0:
        # the specification (which mirrors the code) breaks the property but no real run showed it
        print("INCONCLUSIVE %s: design-level counterexample not reproduced on the binary: %r" % (PROP, design_violations))
        vlib.write_evidence(PROP, tier, seed, time.time() - t0, cov, ASSUMPTIONS, len(V.violations))
        return 2
    vlib.write_evidence(PROP, tier, seed, time.time() - t0, cov, ASSUMPTIONS, len(V.violations))
    return rc


ASSUMPTIONS = [
    "TLC explores all interleavings only within the bounded configurations (chains of <= 2-3 user verbs plus the implicit "
    "trailing verb, <= 2 files of <= 4 records, batch sizes 1..3); larger configurations are covered by real runs only",
    "the specification mirrors the Go code action by action; this is checked by trace validation of real runs (B1) and "
    "re-checked on every run of this check; a rejected trace is reported as model_drift, not as a violation",
    "schedules of the real binary are sampled (perturbation seeds, GOMAXPROCS, one-site delays), not enumerated",
    "model verbs stand for real verbs by a fixed table (cat, filter, repeat, head, tac, tee, put print, put with a failing "
    "type gate, seqgen)",
]


def validate_in_chunks(norm, chunk=300):
    rejected = []
    stats = {"distinct": 0, "generated": 0}
    for s in range(0, len(norm), chunk):
        part = norm[s:s + chunk]
        rej, r = pipeline.validate_traces(part)
        if r is not None:
            stats["distinct"] += r.distinct
            stats["generated"] += r.generated
        for x in rej:
            if "rejected" in x:
                x = dict(x)
                x["rejected"] += s
            rejected.append(x)
    return rejected, stats


def trace_selftest(norm, rejected=()):
    """Corrupt one logged argument and drop one event of otherwise accepted traces: both must be rejected."""
    import copy
    rej = {x["rejected"] - 1 for x in rejected if "rejected" in x}
    cands = [r for k, r in enumerate(norm) if k not in rej and len(r["v"]) >= 2 and len(r["v"][0]) >= 4 and len(r["w"]) >= 2]
    if not cands:
        return {"ok": None, "why": "no accepted candidate trace"}
    base = cands[0]
    a = copy.deepcopy(base)
    for e in a["v"][0]:
        if e["s"] == "sendEnd":
            e["a"] = [e["a"][0] + 1]
            break
    b = copy.deepcopy(base)
    for i, e in enumerate(b["w"]):
        if e["s"] == "recvEnd":
            del b["w"][i]
            break
    c = copy.deepcopy(base)
    rej, r = pipeline.validate_traces([a, b, c])
    got = sorted(x["rejected"] for x in rej if "rejected" in x)
    return {"ok": got == [1, 2], "rejected": got, "expected": [1, 2]}


def sites_of(cfg):
    n = len(cfg["chain"])
    sites = [("main", "main.selectBegin"), ("main", "main.drainBegin"), ("reader", "reader.sendBegin"),
             ("reader", "reader.eosBegin"), ("lines", "lines.pollBegin"), ("lines", "lines.sendBegin"),
             ("lines", "lines.lastSendBegin"), ("writer", "writer.recvBegin"), ("writer", "writer.doneBegin")]
    for i in range(n):
        for s in ("verb.recvBegin", "verb.sendBegin", "dd.pollBegin", "dd.fwdBegin", "head.ownDoneBegin",
                  "verb.errPostBegin", "verb.errDoneBegin"):
            sites.append(("v%d" % i, s))
    return sites


def delay_sweep(mlr, cfgs, V, rnd, usec=3000, check=None):
    runs = []
    for c in cfgs:
        for role, site in sites_of(c):
            runs.append((c, {"fmt": "dkvp", "env": {"MLR_VERIF_DELAY": "%s:%s:%d" % (role, site, usec)}}))
    cases = [pipeline.render(c, mlr, v) for c, v in runs]
    res = vlib.run_cases(cases)
    vlib.confirm_timeouts(cases, res)
    obs = [pipeline.observe(c, k, r) for (c, v), k, r in zip(runs, cases, res)]
    bad, nobs = pipeline.validate_obs(obs)
    for idx, why in bad:
        c, v = runs[idx]
        V.violation(finding_key(c, why), {"why": why, "cfg": c, "variant": v, "argv": cases[idx]["argv"][1:],
                                          "files": cases[idx]["files"],
                                          "observed": {k: obs[idx][k] for k in ("out", "exit", "timedout", "tee")},
                                          "stderr": res[idx]["stderr"][:2000]})
    return {"runs": len(runs), "sites": len({(r, s) for c in cfgs for r, s in sites_of(c)}), "configs": len(cfgs),
            "bad": bad}


def docs_batch_sweep(mlr, V, thorough):
    """The example commands of the reference (docs/src/reference-*.md: the commands GENMD ran to produce the pages) re-run
    under batch sizes 1, 2, 7 and the default: stdout and exit status must not depend on the batch size. The commands are
    taken verbatim; nothing is known here about what they should print -- the oracle is the property (BatchIndependence)."""
    import glob
    import html
    import os
    import shlex
    import shutil
    src = os.path.join(vlib.REPO, "docs", "src")
    work = vlib.scratch("docs")
    dst = os.path.join(work, "src")
    shutil.copytree(src, dst, symlinks=True, ignore=shutil.ignore_patterns("*.md", "*.md.in", "*.png", "*.jpg", "site", "*.html"))
    cmds = []
    for page in sorted(glob.glob(os.path.join(src, "reference-*.md")) + glob.glob(os.path.join(src, "questions-*.md"))
                       + glob.glob(os.path.join(src, "operating-on-all-*.md")) + glob.glob(os.path.join(src, "shapes-of-data.md"))):
        cur = None
        for line in open(page, encoding="utf-8", errors="replace"):
            line = line.rstrip("\n")
            if line.startswith("<b>") and line.endswith("</b>"):
                text = html.unescape(line[3:-4])
                if cur is not None:
                    cur += "\n" + text
                elif text.startswith("mlr "):
                    cur = text
                if cur is not None and cur.count("'") % 2 == 0:
                    cmds.append(cur)
                    cur = None
            else:
                cur = None
    banned = ("tee", "split", ">", "system", "exec", "urand", "shuffle", "bootstrap", "sample", "hostname", "os.", "systime", "sysntime",
              "uptime", "version", " -I ", "--prepipe", "repl", "help", " -h", "--usage", "regtest", "lecat", "termcvt", "seqgen -f i --start 1 --stop 1000000",
              "nothing", "ENV", "--nr-progress-mod", "case ", "summary", "split-", "--from", "--load", "--mload", "strfntime_local", "localtime", "--tz", "TZ",
              "sec2date", "gmt2localtime", "exit ", "emit >", "print >", "dump >", "--ofmt %.3lf --c2p", "fill-down -a", "sparsify")
    picked = []
    seen = set()
    for c in cmds:
        if any(b in c for b in banned) or c in seen or "|" in c.split("'")[0]:
            continue
        seen.add(c)
        picked.append(c)
    if not thorough:
        picked = picked[::2]
    cases, meta = [], []
    for c in picked:
        for b in (1, 2, 7, 500):
            cases.append({"shell": "cd %s && %s --records-per-batch %d %s" % (shlex.quote(dst), shlex.quote(mlr), b, c[4:]),
                          "timeout_ms": 20000, "max_out": 2 << 20})
            meta.append((c, b))
    res = vlib.run_cases(cases)
    vlib.confirm_timeouts(cases, res)
    by_cmd = {}
    for (c, b), r in zip(meta, res):
        by_cmd.setdefault(c, {})[b] = (r["exit"], r["timed_out"], r["stdout"])
    differing = []
    usable = 0
    for c, d in by_cmd.items():
        if any(v[1] for v in d.values()):
            V.violation({"shape": "docs-command-hangs", "command": c}, {"command": c})
            continue
        if all(v[0] != 0 for v in d.values()):
            continue            # a command this harness cannot run from that directory (missing file, ...): not judged
        usable += 1
        if len({(v[0], v[2]) for v in d.values()}) > 1:
            differing.append(c)
            V.violation({"shape": "output-depends-on-batch-size", "command": c},
                        {"command": c, "exit_by_batch": {str(b): v[0] for b, v in d.items()},
                         "stdout_lengths_by_batch": {str(b): len(v[2]) for b, v in d.items()}})
    shutil.rmtree(work, ignore_errors=True)
    return {"commands": len(picked), "usable": usable, "runs": len(cases), "differing": differing[:10]}


SWEEP_COMMANDS = [
    # per-record output statements on accumulating out-of-stream maps (the emitted record must be a snapshot)
    ["put", "-q", "@count[$k] += 1; emit @count"],
    ["put", "-q", "@count[$k] += 1; emitp @count"],
    ["put", "-q", "@count[$k] += 1; emit1 @count"],
    ["put", "-q", "@count[$k] += 1; emit mapsum(@count, {})"],
    ["put", "-q", "@sum[$k][$j] += $i; emit @sum, \"k\""],
    ["put", "-q", "@sum[$k][$j] += $i; emitp @sum, \"k\""],
    ["put", "-q", "@sum[$k][$j] += $i; emitp @sum"],
    ["put", "-q", "@sum[$k][$j] += $i; emit @sum"],
    ["put", "-q", "@a[$k] += $i; @b[$k] += 1; emit (@a, @b), \"k\""],
    ["put", "-q", "@a[$k] += $i; @b[$k] += 1; emitp (@a, @b), \"k\""],
    ["put", "-q", "@a[$k] += $i; @b[$k] += 1; emitp (@a, @b)"],
    ["put", "-q", "@a += $i; @b = $k; emitf @a, @b"],
    ["put", "-q", "@r[NR] = $*; emit @r[NR]"],
    ["put", "-q", "@r[$k] = $*; emit @r, \"k\""],
    ["put", "-q", "@last = $*; emit @last"],
    ["put", "-q", "@count[$k] += 1; tee > \"/dev/stdout\", @count"] ,
    ["put", "-q", "@count[$k] += 1; dump"],
    ["put", "-q", "@count[$k] += 1; print json_encode(@count)"] ,
    ["put", "@count[$k] += 1; $c = @count[$k]; $m = json_decode(json_encode(@count))"],
    ["put", "-q", "@count[$k] += 1; emit @count", "then", "put", "$z = NR"],
    ["put", "-q", "@count[$k] += 1; emitp @count", "then", "cat", "-n"],
    ["put", "-q", "@count[$k] += 1; emit1 @count", "then", "tac"],
    ["put", "@m[$k] = $i; $* = mapsum($*, @m)"],
    ["put", "m = $*; m[\"q\"] = NR; emit1 m; $done = 1"],
    ["put", "-q", "@recs[NR] = $*; end { emit @recs, \"NR\" }"],
    ["put", "-q", "@c[$k][$j] = $i; end { emitp @c, \"k\", \"j\" }"],
    # windows and shifts, followed by a verb that modifies the records in place
    ["step", "-a", "slwin_2_0,slwin_0_2,slwin_1_1", "-f", "i", "then", "put", "$i = 0"],
    ["step", "-a", "shift,shift_lag,shift_lead,delta,ratio,counter,rsum,rprod", "-f", "i", "then", "put", "$i = 0"],
    ["step", "-a", "ewma", "-d", "0.1,0.9", "-f", "i", "then", "put", "$i = 0"],
    ["step", "-a", "slwin_2_2", "-f", "i", "-g", "k", "then", "put", "$i = -$i"],
    ["fill-down", "-a", "then", "put", "$i = 0"], ["fill-down", "-f", "j", "then", "put", "$j = \"\""],
    ["count-similar", "-g", "k", "then", "put", "$k = \"z\""], ["top", "-n", "2", "-f", "i", "-g", "k", "-a", "then", "put", "$i = 0"],
    ["merge-fields", "-k", "-a", "sum,count", "-f", "i,n", "-o", "m", "then", "put", "$i = 0"],
    ["tee", "/dev/null", "then", "put", "$i = 0"], ["nest", "--ivar", ";", "-f", "j", "then", "put", "$k = 1"],
    ["repeat", "-n", "2", "then", "put", "$i = NR"], ["repeat", "-f", "n", "then", "put", "$i = $i . \"x\""],
    ["bootstrap", "then", "put", "$i = $i . \"x\""], ["sample", "-k", "30", "then", "put", "$i = $i . \"x\""], ["shuffle", "then", "put", "$i = 0"],
    ["unsparsify", "then", "put", "$zz = 1"], ["tac", "then", "put", "$i = 0"], ["group-by", "k", "then", "put", "$i = 0"],
    ["sec2gmt", "i", "then", "put", "$i = 0"], ["seqgen", "--start", "1", "--stop", "40", "then", "put", "$j = $i * 2"],
    ["split-join", "-h"],
    # the lazily built key index of wide records (12 fields and more) under renames and positional assignments
    ["put", "$y = $a; $[[1]] = \"A\"; $z = $a; $w = $A"],
    ["put", "$[[3]] = \"C\"; $y = $c; $x = $C"], ["put", "$[[[3]]] = \"v\"; $y = $c"],
    ["put", "unset $c; $c = 9; $y = $c"], ["put", "$c = 9; unset $c; $y = is_absent($c)"],
    ["rename", "a,A,c,C", "then", "put", "$y = $a . $A . $c . $C"], ["rename", "-r", "^(.)$,x_\\1", "then", "put", "$y = $x_a . $a"],
    ["reorder", "-f", "c,b", "then", "put", "$y = $a . $b . $c"], ["reorder", "-e", "-f", "a", "then", "put", "$y = $a"],
    ["cut", "-x", "-f", "b,c", "then", "put", "$y = is_absent($b) . $a"], ["cut", "-o", "-f", "c,a,l", "then", "put", "$y = $l . $a"],
    ["label", "A,B,C", "then", "put", "$y = $A . is_absent($a)"], ["sort-within-records", "-r", "then", "put", "$y = $a . $n"],
    ["put", "map m = $*; unset $*; $* = m; $y = $a"], ["put", "$* = mapexcept($*, \"a\"); $y = is_absent($a); $a = 1; $z = $a"],
    ["template", "-f", "n,a,zz", "then", "put", "$y = $a . $zz"], ["regularize", "then", "put", "$y = $a"],
    ["put", "for (k, v in $*) { if (k == \"b\") { unset $[k] } } $y = is_absent($b); $b = 2; $z = $b"],
    ["put", "$new1 = 1; $new2 = 2; unset $new1; $y = is_absent($new1) . $new2"],
    ["nest", "--explode", "--values", "--across-fields", "-f", "j", "--nested-fs", ";", "then", "put", "$y = $j_1"],
    ["sec2gmt", "-1", "i", "then", "put", "$y = $i"], ["fill-empty", "then", "put", "$y = $a"],
]
SWEEP_COMMANDS = [c for c in SWEEP_COMMANDS if c != ["split-join", "-h"]]


def dsl_batch_sweep(mlr, V, thorough):
    """A catalogue of commands whose output must not depend on --records-per-batch, on --hash-records / --no-hash-records or
    on timing (per-record emits of accumulating maps, windows followed by in-place modification, renames and positional
    assignments on wide records), run on a 40-record, 14-field input under every combination. The oracle is the property
    (BatchIndependence of Pipeline.tla; the statement names these flags): all runs of a command must agree."""
    rows = []
    for i in range(1, 41):
        k = "g%d" % (i % 3)
        rows.append("a=%d,b=%d,c=%d,d=4,e=5,f=6,g=7,h=8,l=9,m=10,k=%s,j=%s,i=%d,n=%d" % (i, i * 2, i * 3, k, "x;y" if i % 2 else "z", i, i % 4 + 1))
    body = "\n".join(rows) + "\n"
    variants = [(b, h, e) for b in (1, 2, 7, 39, 40, 500) for h in ("--hash-records", "--no-hash-records")
                for e in ({}, {"GOMAXPROCS": "1"})]
    if not thorough:
        variants = [v for k, v in enumerate(variants) if k % 2 == 0 or v[0] in (1, 500)]
    cases, meta = [], []
    for ci, cmd in enumerate(SWEEP_COMMANDS):
        seeded = ["--seed", "7"] if cmd[0] in ("bootstrap", "sample", "shuffle") else []
        for b, h, e in variants:
            cases.append({"argv": [mlr, "--records-per-batch", str(b), h] + seeded + cmd + (["in.dkvp"] if cmd[0] != "seqgen" else []),
                          "files": {"in.dkvp": body}, "env": e, "timeout_ms": 15000})
            meta.append((ci, b, h))
    res = vlib.run_cases(cases)
    vlib.confirm_timeouts(cases, res)
    by = {}
    for (ci, b, h), r in zip(meta, res):
        by.setdefault(ci, []).append(((b, h), r))
    differing = []
    for ci, lst in by.items():
        cmd = SWEEP_COMMANDS[ci]
        outs = {(r["exit"], r["timed_out"], r["stdout"]) for _, r in lst}
        if any(r["timed_out"] for _, r in lst):
            V.violation({"shape": "hang", "command": cmd}, {"command": cmd})
        elif all(r["exit"] != 0 for _, r in lst):
            continue            # not a runnable command in this version: not judged
        elif len(outs) > 1:
            byb = {}
            for (b, h), r in lst:
                byb.setdefault((r["exit"], r["stdout"]), []).append("%d%s" % (b, "h" if h == "--hash-records" else "n"))
            differing.append(cmd)
            only_hash = all(len({x[-1] for x in g}) == 1 for g in byb.values()) and len(byb) == 2
            key = {"shape": "output-depends-on-batch-size-or-hash-mode", "command": cmd}
            if cmd[0] == "step" and any("slwin" in a for a in cmd):
                # identification of a recorded finding: sliding windows reaching backwards, followed by an in-place modification
                key = {"shape": "output-depends-on-batch-size-or-hash-mode", "family": "step-slwin-backward-window-then-modification"}
            V.violation(key,
                        {"command": cmd, "groups_of_agreeing_settings": sorted(byb.values(), key=len), "depends_only_on_hash_mode": only_hash})
    long_info = long_chain_sweep(mlr, V, thorough)
    return {"commands": len(SWEEP_COMMANDS), "settings_per_command": len(variants), "runs": len(cases), "differing": differing,
            "long_chains": long_info}


# chains in which several verbs of one process do per-record work on the same kinds of data at the same time (grouping on two
# fields, windows, counters): each verb is its own goroutine, so on an input of many batches they run concurrently
LONG_COMMANDS = [
    ["cat", "-n", "-g", "k,n", "then", "head", "-n", "2", "-g", "k,n"],
    ["cat", "-N", "idx", "-g", "k,n", "then", "step", "-a", "counter,rsum", "-f", "i", "-g", "k,n", "then", "head", "-n", "100", "-g", "n,k"],
    ["step", "-a", "shift,delta", "-f", "i", "-g", "k,n", "then", "cat", "-n", "-g", "n,k", "then", "decimate", "-n", "3", "-g", "k,n"],
    ["count-similar", "-g", "k,n", "then", "cat", "-n", "-g", "k,n", "then", "tail", "-n", "2", "-g", "n,k"],
    ["fill-down", "-f", "j", "then", "cat", "-n", "-g", "k,j", "then", "uniq", "-g", "k,n", "-c"],
    ["put", "$s = $k . \":\" . $n", "then", "cat", "-n", "-g", "s,k", "then", "put", "$t = $n . $s", "then", "head", "-n", "3", "-g", "t,k"],
    ["sec2gmt", "i", "then", "cat", "-n", "-g", "k,n", "then", "sec2gmt", "a", "then", "head", "-n", "4", "-g", "n,k"],
]


def long_chain_sweep(mlr, V, thorough):
    """The same oracle on an input of 6000 records (12 batches of 500): all runs of a chain must agree, whatever the batch size,
    the number of CPUs and the run. Repeated runs: a data race between the verbs' goroutines shows as disagreement."""
    rows = []
    for i in range(1, 6001):
        rows.append("a=%d,b=%d,k=g%d,j=%s,i=%d,n=%d" % (i, i * 2, i % 3, "x" if i % 5 else "", i, i % 4 + 1))
    body = "\n".join(rows) + "\n"
    settings = [(b, e) for b in (100, 500, 1000) for e in ({}, {"GOMAXPROCS": "4"}, {"GOMAXPROCS": "1"})]
    repeats = 3 if thorough else 2
    cases, meta = [], []
    for ci, cmd in enumerate(LONG_COMMANDS):
        for b, e in settings:
            for rep in range(repeats):
                cases.append({"argv": [mlr, "--records-per-batch", str(b)] + cmd + ["in.dkvp"], "files": {"in.dkvp": body}, "env": e,
                              "timeout_ms": 30000})
                meta.append((ci, b, e.get("GOMAXPROCS", "all")))
    res = vlib.run_cases(cases)
    vlib.confirm_timeouts(cases, res)
    by = {}
    for m, r in zip(meta, res):
        by.setdefault(m[0], []).append((m, r))
    differing = []
    for ci, lst in by.items():
        cmd = LONG_COMMANDS[ci]
        if any(r["timed_out"] for _, r in lst):
            V.violation({"shape": "hang", "command": cmd}, {"command": cmd})
            continue
        groups = {}
        for m, r in lst:
            groups.setdefault((r["exit"], r["stdout"]), []).append("%d/%s" % (m[1], m[2]))
        if len(groups) > 1:
            differing.append(cmd)
            crash = next((r["stderr"][:600] for _, r in lst if r["exit"] != 0), "")
            V.violation({"shape": "long-chain-output-differs-between-runs", "command": cmd},
                        {"command": cmd, "groups_of_agreeing_runs": sorted(groups.values(), key=len),
                         "output_lines": sorted({k[1].count("\n") for k in groups}), "stderr_of_a_failing_run": crash})
    return {"commands": len(LONG_COMMANDS), "runs": len(cases), "records": 6000, "differing": differing}


def printhead_probe(mlr, V):
    """text printed upstream of an early-exit head: does stdout depend on the batch size?"""
    body = "".join("i=%d\n" % i for i in range(1, 3001))
    cases = []
    for b in (1, 2, 10, 500, 5000):
        cases.append({"argv": [mlr, "--records-per-batch", str(b), "put", 'print "p".$i', "then", "head", "-n", "1", "in.dkvp"],
                      "files": {"in.dkvp": body}, "timeout_ms": 20000})
    res = vlib.run_cases(cases)
    outs = [r["stdout"] for r in res]
    differs = len(set(outs)) > 1
    if differs:
        V.violation({"shape": "stdout-text-upstream-of-early-exit-head", "why": "successful run with wrong output"},
                    {"argv": cases[0]["argv"][1:], "line_counts": [o.count("\n") for o in outs], "batch_sizes": [1, 2, 10, 500, 5000]})
    return {"differs": differs, "line_counts": [o.count("\n") for o in outs]}


def reader_batch_sweep(mlr, V, thorough):
    """Every reader on inputs whose structure spans lines (header blocks, blank-line separated records, multi-line cells,
    comments), under every small batch size, so that each structural line falls first, last and in the middle of a batch:
    the bytes on stdout and the exit status are the same for all sizes (BatchIndependence; nothing is known here about
    what the outputs should be)."""
    blocks = [("a,b,c", ["1,2,3", "4,5,6"]), ("d,e,f", ["7,8,9"]), ("a,b,c", ["10,11,12", "13,14,15", "16,17,18"]), ("g", ["19"]), ("d,e", ["20,21", "22,23"])]

    def lite(sep, blank="\n"):
        return blank.join(h.replace(",", sep) + "\n" + "".join(r.replace(",", sep) + "\n" for r in rows) for h, rows in blocks)
    xtab = "\n".join("".join("%s %s\n" % (k, v) for k, v in zip(h.split(","), r.split(","))) for h, rows in blocks for r in rows)
    inputs = {
        "csvlite": (["--icsvlite", "--ojson"], lite(",")), "csvlite-2blank": (["--icsvlite", "--ojson"], lite(",", "\n\n")),
        "csvlite-ragged": (["--icsvlite", "--allow-ragged-csv-input", "--ojson"], lite(",")),
        "pprint": (["--ipprint", "--ojson"], lite(" ")), "tsvlite": (["--itsvlite", "--ojson"], lite("\t")),
        "xtab": (["--ixtab", "--ojson"], xtab), "xtab-2blank": (["--ixtab", "--ojson"], xtab.replace("\n\n", "\n\n\n")),
        "csv-multiline": (["--icsv", "--ojson"], "a,b\n" + "".join('%d,"x\ny%d\nz"\n' % (i, i) for i in range(1, 9))),
        "csv-comments": (["--icsv", "--pass-comments", "--ojson"], "#c0\na,b\n" + "".join("%d,%d\n#c%d\n" % (i, i, i) for i in range(1, 9))),
        "csv-skip-comments": (["--icsv", "--skip-comments", "--ojson"], "a,b\n" + "".join("%d,%d\n#c%d\n" % (i, i, i) for i in range(1, 9))),
        "csv-implicit": (["--icsv", "--implicit-csv-header", "--ojson"], "".join("%d,%d\n" % (i, i) for i in range(1, 9))),
        "csv-ragged": (["--icsv", "--allow-ragged-csv-input", "--ojson"], "a,b,c\n1,2\n3,4,5,6\n7\n8,9,10\n"),
        "dkvp-comments": (["--pass-comments", "--ojson"], "".join("a=%d\n#c%d\n" % (i, i) for i in range(1, 9))),
        "nidx": (["--inidx", "--ifs", "space", "--ojson"], "".join("w%d x%d  y%d\n" % (i, i, i) for i in range(1, 9))),
        "json-mixed": (["--ijson", "--ojsonl"], '{"a":1}\n[{"a":2},{"a":3}]\n{"a":\n{"b":4}}\n[{"a":5}]\n{"a":6} {"a":7}\n'),
        "jsonl": (["--ijsonl", "--ojson"], "".join('{"a": %d, "b": {"c": [%d]}}\n' % (i, i) for i in range(1, 9))),
        "markdown": (["--imd", "--ojson"], "| a | b |\n| --- | --- |\n" + "".join("| %d | %d |\n" % (i, i) for i in range(1, 9))),
        "usv-like": (["--icsv", "--ifs", ";", "--irs", "|", "--ojson"], "a;b|" + "".join("%d;%d|" % (i, i) for i in range(1, 9))),
    }
    sizes = [1, 2, 3, 4, 5, 6, 7, 8, 9, 500]
    cases, meta = [], []
    for name, (flags, text) in inputs.items():
        for chain in (["cat"], ["tac"], ["head", "-n", "4"]):
            if chain[0] == "head" and "--pass-comments" in flags:
                continue        # (how many comment lines pass after head is done is the known print-before-head finding)
            for b in sizes:
                cases.append({"argv": [mlr] + flags + ["--records-per-batch", str(b)] + chain, "stdin": text, "timeout_ms": 15000})
                meta.append((name, tuple(chain), b))
    res = vlib.run_cases(cases)
    vlib.confirm_timeouts(cases, res)
    by = {}
    for m, r in zip(meta, res):
        by.setdefault(m[:2], []).append((m[2], r))
    differing = []
    for (name, chain), lst in by.items():
        if any(r["timed_out"] for _, r in lst):
            V.violation({"shape": "hang", "reader": name, "chain": list(chain)}, {"reader": name})
            continue
        groups = {}
        for b, r in lst:
            groups.setdefault((r["exit"], r["stdout"]), []).append(b)
        if len(groups) > 1:
            differing.append([name, list(chain)])
            V.violation({"shape": "reader-output-depends-on-batch-size", "reader": name, "chain": list(chain)},
                        {"argv": cases[0]["argv"][1:1] + inputs[name][0] + list(chain), "input": inputs[name][1][:400],
                         "batch_sizes_by_outcome": [{"exit": k[0], "stdout": k[1][:300], "sizes": v} for k, v in groups.items()]})
    return {"runs": len(cases), "readers": sorted(inputs), "batch_sizes": sizes, "differing": differing}


def seed_check(mlr, V, thorough):
    """--seed makes randomized verbs and functions reproducible (across runs and batch sizes)."""
    body = "".join("i=%d\n" % i for i in range(1, 41))
    singles = [
        ["shuffle"], ["bootstrap"], ["sample", "-k", "5"], ["put", "$r = urand32()"], ["put", "$r = urandint(1, 1000)"],
        ["put", "$r = urandrange(0, 10)"], ["decimate", "-n", "2", "then", "shuffle"],
        ["put", "$r = urandelement([1,2,3,4,5])"],
    ]
    doubles = [
        ["put", "$a = urand32()", "then", "put", "$b = urand32()"],
        ["shuffle", "then", "put", "$b = urand32()"],
    ]
    cases, meta = [], []
    reps = 6 if not thorough else 20
    for chain in singles + doubles:
        for b in (1, 3, 500):
            for rep in range(reps):
                env = {"MLR_VERIF_PERTURB": str(1000 * rep + b)} if rep % 2 else {}
                cases.append({"argv": [mlr, "--seed", "12345", "--records-per-batch", str(b)] + chain + ["in.dkvp"],
                              "files": {"in.dkvp": body}, "env": env, "timeout_ms": 10000})
                meta.append((tuple(chain), b))
    res = vlib.run_cases(cases)
    by_chain = {}
    for (chain, b), r in zip(meta, res):
        by_chain.setdefault(chain, set()).add((r["exit"], r["stdout"]))
    out = {"runs": len(cases), "chains": len(by_chain), "irreproducible": []}
    for chain, outs in by_chain.items():
        if len(outs) > 1:
            nrand = sum(1 for a in chain if "urand" in a or a in ("shuffle", "bootstrap", "sample"))
            key = {"shape": "seed-with-several-randomized-verbs"} if list(chain) in doubles else \
                  {"shape": "seed-single-randomized-verb", "chain": list(chain)}
            V.violation(key, {"argv": ["--seed", "12345"] + list(chain), "distinct_outputs": len(outs)})
            out["irreproducible"].append(list(chain))
    return out


def tailf_check(mlr, V, thorough):
    """--records-per-batch 1 --fflush: the output for each input record is readable while stdin is still open,
    before any further input arrives (streaming verbs only). Causal signature of a violation: the output for line k
    becomes readable only after line k+1 was fed (or at end of input)."""
    import os
    import select
    import subprocess
    chains = [["cat"], ["put", "$j = $i . \"x\""], ["filter", "true"], ["cat", "then", "put", "$k = NR"],
              ["sec2gmt", "i"], ["rename", "i,z"], ["cat", "-n"], ["put", "-q", "print $i"],
              ["head", "-n", "100"], ["fill-down", "-a", "-f", "i"],
              # output that is text only, or records sent by the DSL itself
              ["put", "-q", "dump $*"], ["put", "-q", "emit $*"], ["put", "-q", "printn $i; print \"\""],
              ["put", "print \"t\""], ["filter", "-q", "print $i; true"],
              ["put", "-q", "print $i", "then", "cat"], ["put", "print $i", "then", "nothing"]]
    fmts = [("dkvp", lambda k: "i=%d\n" % k, []), ("nidx", lambda k: "%d\n" % k, ["--inidx", "--ifs", "space", "--oxtab"]),
            ("jsonl", lambda k: '{"i": %d}\n' % k, ["--ijsonl", "--ojsonl"]),
            ("csv", lambda k: "%d\n" % k, ["--icsv", "--implicit-csv-header", "--ocsv", "--headerless-csv-output"])]
    feeds = 0
    late = []
    for fname, mk, flags in fmts:
        for chain in chains:
            if fname != "dkvp" and chain[0] in ("sec2gmt", "rename", "fill-down") :
                continue
            if fname in ("nidx", "csv") and any("$i" in a for a in chain):
                chain = [a.replace("$i", "$1") for a in chain]
            argv = [mlr] + flags + ["--records-per-batch", "1", "--fflush"] + chain
            p = subprocess.Popen(argv, stdin=subprocess.PIPE, stdout=subprocess.PIPE, stderr=subprocess.PIPE)
            os.set_blocking(p.stdout.fileno(), False)
            ok = True
            try:
                for k in range(1, 5):
                    p.stdin.write(mk(k).encode())
                    p.stdin.flush()
                    feeds += 1
                    got = b""
                    deadline = time.time() + 10.0
                    while time.time() < deadline:
                        rl, _, _ = select.select([p.stdout], [], [], 0.2)
                        if rl:
                            chunk = p.stdout.read()
                            if chunk:
                                got += chunk
                                if got.endswith(b"\n"):
                                    break
                        if p.poll() is not None:
                            break
                    if not got:
                        ok = False
                        late.append({"format": fname, "chain": chain, "line": k})
                        break
            finally:
                try:
                    p.stdin.close()
                except Exception:
                    pass
                try:
                    p.wait(timeout=10)
                except Exception:
                    p.kill()
            if not ok:
                V.violation({"shape": "tail-f-output-withheld", "format": fname, "chain": chain},
                            {"argv": argv[1:], "detail": late[-1]})
    return {"feeds": feeds, "withheld": late, "formats": [f[0] for f in fmts], "chains": len(chains)}


def replay(path):
    with open(path) as f:
        v = json.load(f)
    print(json.dumps(v, indent=1))
    mlr = vlib.build_mlr()
    d = v.get("detail", {})
    if "argv" in d:
        case = {"argv": [mlr] + d["argv"], "files": d.get("files", {}), "collect": True, "timeout_ms": 10000,
                "env": (d.get("variant") or {}).get("env", {})}
        res = vlib.run_cases([case])[0]
        print(json.dumps({k: res[k] for k in ("stdout", "stderr", "exit", "timed_out")}, indent=1))
    return 0
