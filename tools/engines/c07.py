"""C07 — arithmetic is exact on 64-bit ints, overflows to float, and never crashes.

Arith.tla gives, for int operands, the documented result of every arithmetic / bitwise operator and int-preserving
function as <allowed kinds, exact int value(s)> on BigInt.tla (limb-based exact integers: TLC's own are 32-bit).
ArithMC checks the laws of both modules on the boundary grid; ArithGen emits the grid; the rebuilt binary evaluates
the full cross product of the grid with itself for every binary operator (one mlr process per operator and batch,
operands read from data fields), small second operands for ** and the shifts, triples for madd/msub/mmul/mexp and a
seeded random sample of int64 operands; ArithObs judges every result.  A row on which the process dies is a
violation by itself.  Python spells expressions and splits text; it computes no expected value."""
import copy
from concurrent.futures import ThreadPoolExecutor
import json
import os
import random
import re
import time

import b3
import vlib

PROP = "C07"

# how each operator of Arith.tla is spelled in the DSL (rendering table, no semantics)
SPELL = {
    "+": "($a + $b)", "-": "($a - $b)", "*": "($a * $b)", "/": "($a / $b)", "//": "($a // $b)", "%": "($a % $b)",
    "**": "($a ** $b)", ".+": "($a .+ $b)", ".-": "($a .- $b)", ".*": "($a .* $b)", "./": "($a ./ $b)",
    "&": "($a & $b)", "|": "($a | $b)", "^": "($a ^ $b)", "<<": "($a << $b)", ">>": "($a >> $b)", ">>>": "($a >>> $b)",
    "min": "min($a, $b)", "max": "max($a, $b)", "roundm": "roundm($a, $b)",
    "neg": "(-$a)", "pos": "(+$a)", "~": "(~$a)", "abs": "abs($a)", "ceil": "ceil($a)", "floor": "floor($a)",
    "round": "round($a)", "sgn": "sgn($a)",
    "madd": "madd($a, $b, $c)", "msub": "msub($a, $b, $c)", "mmul": "mmul($a, $b, $c)", "mexp": "mexp($a, $b, $c)",
}
TYPE_NAMES = {"int": "int", "float": "float", "error": "error", "absent": "absent", "empty": "empty", "string": "string",
              "boolean": "boolean", "map": "map", "array": "array", "funct": "funct"}
INT_TEXT = re.compile(r"^-?[0-9]+$")
BATCH = 2500        # rows per mlr process
SUB = 100           # rows per process when a batch died and is re-run to find the offending rows


def program(op):
    e = SPELL[op]
    # typeof and the text of a numeric result; nothing is assigned (an absent result would be skipped on assignment)
    return 'print NR . "|" . typeof(%s) . "|" . (is_numeric(%s) ? ("" . %s) : "")' % (e, e, e)


# Other ways the same operator is applied (rendering table, no semantics): "<op>@@<via>".  The compound assignment is the
# operator by definition; the accumulators of the verbs are documented as the sum / minimum / maximum of the values, i.e.
# the operator folded over them (and "sums/min/max of ints stay ints").
COMPOUND = ["+", "-", "*", "/", "//", "%", "**", "&", "|", "^", "<<", ">>", ">>>"]
ACC = {"+": "sum", "min": "min", "max": "max"}


def shown(e):
    return 'print %s . "|" . typeof(%s) . "|" . (is_numeric(%s) ? ("" . %s) : "")' % ("%s", e, e, e)


def case_for(mlr, opv, rows):
    op, _, via = opv.partition("@@")
    body = "".join("a=%s,b=%s,c=%s\n" % r for r in rows)
    if via == "":
        argv = [mlr, "put", "-q", program(op)]
    elif via == "compound":
        argv = [mlr, "put", "-q", "var r = $a; r %s= $b; " % op + shown("r") % "NR"]
    elif via == "merge-fields":
        argv = [mlr, "merge-fields", "-k", "-a", ACC[op], "-f", "a,b", "-o", "s", "then", "put", "-q", shown("$s_" + ACC[op]) % "NR"]
    else:
        # one group of two records per row, the group's name being the row number
        body = "".join("g=%d,x=%s\ng=%d,x=%s\n" % (i, r[0], i, r[1]) for i, r in enumerate(rows, start=1))
        if via == "stats1":
            argv = [mlr, "stats1", "-a", ACC[op], "-f", "x", "-g", "g", "then", "put", "-q", shown("$x_" + ACC[op]) % "$g"]
        elif via == "stats1-i":
            argv = [mlr, "stats1", "-i", "-a", ACC[op], "-f", "x", "-g", "g", "then", "put", "-q",
                    "NR % 2 == 0 {" + shown("$x_" + ACC[op]) % "$g" + "}"]
        elif via == "step-rsum":
            argv = [mlr, "step", "-a", "rsum", "-f", "x", "-g", "g", "then", "put", "-q", "NR % 2 == 0 {" + shown("$x_rsum") % "$g" + "}"]
        else:
            raise ValueError(opv)
    return {"argv": argv, "stdin": body, "timeout_ms": 120000, "max_out": 64 << 20}


def parse_rows(stdout, n):
    out = {}
    for line in stdout.split("\n"):
        p = line.split("|")
        if len(p) == 3 and p[0].isdigit():
            out[int(p[0])] = (p[1], p[2])
    return out if len(out) == n else None


def evaluate(mlr, work, arity):
    """work: list of (op, rows). Returns {(op, row): (kind text, value text, stderr)}; rows on which the process dies are
    found by re-running a failed batch in pieces (rows sharing their last operands together: the rows that kill the
    process tend to share an operand) and then row by row."""
    results = {}
    level = [(op, rows[i:i + BATCH]) for op, rows in work for i in range(0, len(rows), BATCH)]
    processes = 0
    for size in (BATCH, SUB, 1):
        if not level:
            break
        cases = [case_for(mlr, op, rows) for op, rows in level]
        res = vlib.run_cases(cases)
        if size == 1:
            vlib.confirm_timeouts(cases, res)
        processes += len(cases)
        nxt = []
        for (op, rows), r in zip(level, res):
            parsed = parse_rows(r["stdout"], len(rows)) if (r["exit"] == 0 and not r["timed_out"]) else None
            if parsed is not None:
                for i, row in enumerate(rows, start=1):
                    results[(op, row)] = (parsed[i][0], parsed[i][1], "")
            elif size == 1:
                err = r["stderr"]
                died = ("panic" in err) or ("goroutine " in err) or bool(r.get("signal")) or r["timed_out"] or r["exit"] < 0
                results[(op, rows[0])] = ("crash" if died else "fatal", "", err[:700] + (" [timed out]" if r["timed_out"] else ""))
            elif size == BATCH:
                groups = {}
                for row in rows:
                    groups.setdefault(row[arity[op] - 1], []).append(row)
                misc = []
                for grp in groups.values():
                    if len(grp) < 8:
                        misc += grp             # (random operands: no shared last operand)
                    else:
                        nxt += [(op, grp[i:i + SUB]) for i in range(0, len(grp), SUB)]
                nxt += [(op, misc[i:i + SUB]) for i in range(0, len(misc), SUB)]
            else:
                nxt += [(op, [row]) for row in rows]
        level = nxt
    return results, processes


def tokens(s):
    return list(s)


def rand_operand(rnd):
    # a uniformly chosen bit length, then a uniformly chosen magnitude of that length, either sign (sampling only)
    bits = rnd.randrange(1, 64)
    m = rnd.getrandbits(bits)
    return str(-m if rnd.random() < 0.5 else m)


def run(tier, seed):
    t0 = time.time()
    rnd = random.Random(seed)
    V = vlib.Verdicts(PROP)
    mlr = vlib.build_mlr()
    thorough = tier == "thorough"
    jobs = int(os.environ.get("VERIF_JOBS", "8"))
    cov = {"tlc_runs": [], "samples": []}
    consts = {"Tier": '"%s"' % tier}

    # ---- the specification's own laws (TLC runs while the binary evaluates the cases) -----------------------------
    def run_laws():
        cfg = b3.cfg_text(consts, init="MCInit", next_="MCNext", invariants=["Laws"])
        return vlib.tlc("ArithMC", cfg="gen.cfg", extra_files={"gen.cfg": cfg}, timeout=3000)
    pool = ThreadPoolExecutor(1)
    laws_future = pool.submit(run_laws)

    # ---- the case space ---------------------------------------------------------------------------------------
    space, g = b3.gen_cases("ArithGen", consts)
    space = space[0]
    grid = ["".join(t) for t in space["grid"]]
    small = ["".join(t) for t in space["small"]]
    tri = ["".join(t) for t in space["tri"]]
    mexpbases = ["".join(t) for t in space["mexpbases"]]
    unary, binary, ternary = sorted(space["unary"]), sorted(space["binary"]), sorted(space["ternary"])
    smallsecond = set(space["smallsecond"])
    for op in unary + binary + ternary:
        if op not in SPELL:
            raise vlib.Inconclusive("no spelling for operator %r" % op)
    n_rand = 12000 if thorough else 60
    rand_pairs = [(rand_operand(rnd), rand_operand(rnd)) for _ in range(n_rand)]
    # pairs around the 64-bit boundary of the product: a random a with the b for which a * b is next to 2^63 (sampling only)
    for _ in range(n_rand // 3):
        a = int(rand_operand(rnd))
        if a not in (0,):
            q = (1 << 63) // abs(a)
            b = q + rnd.choice((-1, 0, 1))
            if -(1 << 63) <= b < (1 << 63):
                rand_pairs.append((str(a), str(b if rnd.random() < 0.5 else -b)))
    rand_triples = [(rand_operand(rnd), rand_operand(rnd), rand_operand(rnd)) for _ in range(n_rand // 2)]
    work = []
    pairs = [(a, b, "0") for a in grid for b in grid]
    for op in binary:
        rows = list(pairs)
        if op in smallsecond:
            rows += [(a, b, "0") for a in grid for b in small]
        rows += [(a, b, "0") for a, b in rand_pairs]
        work.append((op, list(dict.fromkeys(rows))))
    # the same operators reached through a compound assignment and through the accumulators of stats1, merge-fields and step
    for op in binary:
        vias = (["compound"] if op in COMPOUND else []) + (["merge-fields", "stats1", "stats1-i"] if op in ACC else []) + \
               (["step-rsum"] if op == "+" else [])
        for via in vias:
            work.append(("%s@@%s" % (op, via), list(pairs) + [(a, b, "0") for a, b in rand_pairs[:200]]))
    for op in unary:
        rows = [(a, "0", "0") for a in grid] + [(a, "0", "0") for a, _ in rand_pairs]
        work.append((op, list(dict.fromkeys(rows))))
    for op in ternary:
        rows = [(a, b, c) for a in tri for b in tri for c in tri] + rand_triples
        if op == "mexp":
            rows += [(a, b, c) for a in mexpbases for b in small for c in tri]
        work.append((op, list(dict.fromkeys(rows))))

    # operands must reach the operators as ints with their own text
    pre = vlib.run_cases([{"argv": [mlr, "put", "-q", 'print typeof($a) . "|" . $a'], "stdin": "".join("a=%s\n" % s for s in grid + small + tri),
                           "timeout_ms": 60000}])[0]
    want = "".join("int|%s\n" % s for s in grid + small + tri)
    if pre["exit"] != 0 or pre["stdout"] != want:
        raise vlib.Inconclusive("grid operands are not read as ints with their own text: %r" % pre["stdout"][:300])

    arity = {op: 1 for op in unary}
    arity.update({op: 2 for op in binary})
    arity.update({op: 3 for op in ternary})
    arity.update({opv: 2 for opv, _ in work if "@@" in opv})
    results, processes = evaluate(mlr, work, arity)
    t_eval = time.time() - t0

    laws = laws_future.result()
    pool.shutdown()
    if laws.error:
        raise vlib.Inconclusive("ArithMC failed: %s\n%s" % (laws.error, laws.out[-2500:]))
    if laws.violated:
        raise vlib.Inconclusive("BigInt.tla/Arith.tla violate their own laws: %s\n%s" % (laws.violated, laws.out[-2500:]))
    states, transitions = laws.distinct, laws.generated
    cov["tlc_runs"].append({"module": "ArithMC", "tier": tier, "distinct_states": laws.distinct, "result": "no error",
                            "wall_s": round(laws.wall, 1)})
    t_laws = time.time() - t0 - t_eval

    obs, meta = [], []
    for op, rows in work:
        for row in rows:
            k, v, err = results[(op, row)]
            kind = TYPE_NAMES.get(k, k)
            if kind == "int" and not INT_TEXT.match(v):
                kind = "int-malformed"
            obs.append({"op": op.partition("@@")[0], "a": tokens(row[0]), "b": tokens(row[1]), "c": tokens(row[2]), "kind": kind,
                        "val": tokens(v) if kind == "int" else ["0"]})
            meta.append((op, row, k, v, err))

    # ---- judgement ----------------------------------------------------------------------------------------------
    if os.environ.get("VERIF_C07_OBS"):
        with open(os.environ["VERIF_C07_OBS"], "w") as f:
            for o in obs:
                f.write(json.dumps(o) + "\n")
    # the observations are dealt round-robin into one chunk per TLC process (costly operators are contiguous otherwise)
    nchunks = max(1, min(2 * jobs, len(obs) // 400))
    order = sorted(range(len(obs)), key=lambda i: (i % nchunks, i))
    chunk = (len(obs) + nchunks - 1) // nchunks
    pbad, n = b3.validate("ArithObs", [obs[i] for i in order], chunk=chunk, threads=jobs, timeout=3000)
    bad = sorted(((order[i], p) for i, p in pbad), key=lambda x: x[0])
    states += n
    transitions += n
    for idx, p in bad:
        op, row, k, v, err = meta[idx]
        expr = render(op.partition("@@")[0], row) + (" via " + op.partition("@@")[2] if "@@" in op else "")
        key = {"op": op, "why": p["why"], "class": p["class"]}
        detail = {"expression": expr, "operands": list(row[:arity[op]]), "typeof": k, "value": v,
                  "specified_kinds": sorted(p["kinds"]), "specified_int_values": ["".join(t) for t in p["ints"]],
                  "stderr": err,
                  "reproduce": "printf 'a=%s,b=%s,c=%s\\n' | mlr put -q '%s'" % (row[0], row[1], row[2], program(op)) if "@@" not in op
                  else " ".join(case_for("mlr", op, [row])["argv"]) + "   # stdin: " + case_for("mlr", op, [row])["stdin"].replace("\n", "; ")}
        V.violation(key, detail)

    # non-vacuity of the judgement: corrupted copies of conforming observations must be reported
    def pick(op, pred):
        for o, m in zip(obs, meta):
            if o["op"] == op and pred(o, m):
                return o
        raise vlib.Inconclusive("no observation to corrupt for %s" % op)
    badset = {i for i, _ in bad}
    good_plus = pick("+", lambda o, m: o["kind"] == "int" and m[1][0] == "7" and m[1][1] == "3")
    c1 = copy.deepcopy(good_plus)
    c1["val"] = tokens("11")
    good_over = pick("+", lambda o, m: o["kind"] == "float" and m[1][0] == space_text(space["max64"]) and m[1][1] == "1")
    c2 = copy.deepcopy(good_over)
    c2["kind"], c2["val"] = "int", tokens(space_text(space["min64"]))          # a wrapped sum
    good_mod = pick("%", lambda o, m: m[1][0] == "-7" and m[1][1] == "3" and o["kind"] == "int")
    c3 = copy.deepcopy(good_mod)
    c3["val"] = tokens("-1")                                                    # a C-style remainder
    c4 = copy.deepcopy(good_plus)
    c4["kind"], c4["val"] = "crash", ["0"]
    sb, _ = b3.validate("ArithObs", [c1, good_plus, c2, good_over, c3, good_mod, c4])
    st = {"ok": [b[0] for b in sb] == [0, 2, 4, 6], "reported": [[b[0], b[1].get("why")] for b in sb]}
    cov["obs_selftest"] = st
    if st["ok"] is False:
        raise vlib.Inconclusive("observation self-test failed: %r" % st)

    # ---- evidence -----------------------------------------------------------------------------------------------
    def big(s):
        return len(s.lstrip("-")) >= 10
    nontrivial = {(m[0], m[1]) for m in meta if big(m[1][0]) or big(m[1][1]) or big(m[1][2]) or m[2] != "int" or big(m[3])}
    kinds = {}
    for m in meta:
        kinds[m[2] if not m[4] else "died"] = kinds.get(m[2] if not m[4] else "died", 0) + 1
    for i in (len(obs) // 7, len(obs) // 2, len(obs) - 3):
        op, row, k, v, _ = meta[i]
        cov["samples"].append({"expression": render(op.partition("@@")[0], row),
                               "typeof": k, "value": v, "conforms": i not in badset})
    cov.update({
        "states": states, "transitions": transitions, "traces_validated_against_impl": len(obs),
        "evaluations": len(obs), "distinct_nontrivial": len(nontrivial),
        "rule": "%d binary operators x the full cross product of the %d-operand boundary grid of ArithGen.tla with itself (+ %d "
                "second operands -1..66 for ** << >> >>>), %d unary operators x grid, %d three-argument functions x the cube of a "
                "%d-operand grid, plus %d seeded random int64 pairs (uniform bit length; a third of them next to the 64-bit "
                "boundary of their product) and %d random triples; non-trivial = an operand or the result has 10 or more digits, "
                "or the result is not an int; distinct by (operator, operands)"
                % (len(binary), len(grid), len(small), len(unary), len(ternary), len(tri), len(rand_pairs), len(rand_triples)),
        "exhaustive": True, "grid_operands": len(grid), "mlr_processes": processes, "result_kinds": kinds,
        "nonconforming_observations": len(bad),
        "phase_wall_s": {"build+generate+evaluate": round(t_eval, 1), "laws (beyond the evaluation they overlap)": round(t_laws, 1),
                         "judge": round(time.time() - t0 - t_laws - t_eval, 1)},
    })
    rc = V.finish()
    vlib.write_evidence(PROP, tier, seed, time.time() - t0, cov, [
        "operands are ints (decimal text within int64) read from data fields; float operands, NaN/Inf and mixed int/float "
        "operations are not covered: TLC has no floating point, so a float-valued outcome is checked for its kind only",
        "the boundary grid is finite; exhaustive means the whole cross product of that grid, not of int64",
        "the expectations are Arith.tla's, written from reference-main-arithmetic.md, reference-dsl-operators.md and the function "
        "help texts; where these are silent (zero divisors/moduli, shift counts outside 0..63, negative moduli/exponents, "
        "roundm beyond 2^52) any number or error value is accepted, but the process must survive",
        "for '*' an exact product within 4096 of 2^63 may be a float: the reference documents its double-precision overflow test",
        "the harness spells expressions and splits text; operator semantics are evaluated by TLC only",
    ], len(V.violations))
    return rc


def render(op, row):
    """The expression with the operands written in (for reports only)."""
    lit = ["(%s)" % x if x.startswith("-") else x for x in row]
    return SPELL[op].replace("$a", lit[0]).replace("$b", lit[1]).replace("$c", lit[2])


def space_text(toks):
    return "".join(toks)


def replay(path):
    with open(path) as f:
        v = json.load(f)
    print(json.dumps(v, indent=1))
    d = v.get("detail", {})
    if d.get("reproduce"):
        mlr = vlib.build_mlr()
        cmd = d["reproduce"].replace("| mlr ", "| %s " % mlr)
        p = vlib.sh(["/bin/sh", "-c", cmd], check=False, timeout=60)
        print("exit %d\n%s%s" % (p.returncode, p.stdout, p.stderr[:600]))
    return 0
