"""C06 — type inference from data follows the documented number grammar exactly.

Inference.tla is the grammar as a recogniser over one-character tokens (Classify); InferenceMC guards it against an
independent automaton and the flag laws; every string up to a bounded length over the numeric alphabet, plus boundary
magnitudes, is given to the rebuilt binary under every flag set and source, thousands of fields per process; TLC judges
typeof, arithmetic and the is_* predicates of each against Classify."""
import itertools
import json
import random
import re
import time

import b3
import vlib

PROP = "C06"
PROGRAM = ('print NR . "|" . typeof($x) . "|" . typeof($x + 0) . "|" . '
           '((is_numeric($x + 0)) ? ("" . ($x + 0)) : "") . "|" . is_int($x) . "|" . is_float($x) . "|" . is_string($x) . "|" . is_empty($x)')
JSON_NUMBER = re.compile(r"^-?(0|[1-9][0-9]*)(\.[0-9]+)?([eE][+-]?[0-9]+)?$")
TYPE_NAMES = {"int": "int", "float": "float", "string": "string", "empty": "empty", "boolean": "boolean", "bool": "boolean",
              "error": "error", "absent": "absent", "map": "map", "array": "array"}


def batches(strings, size):
    for i in range(0, len(strings), size):
        yield strings[i:i + size]


# the verb's own -S and -F are "No-op pass-through[s] for backward compatibility with Miller 5" (mlr put --help): the
# classification is the same however the verb that consults it is spelled
VERB_SPELLINGS = [["-q"], ["-q", "-S"], ["-q", "-F"], ["-S", "-q"], ["-F", "-q", "-S"]]


def case_for(mlr, flags, src, chunk, verbflags=("-q",)):
    if src == "field":
        body = "".join("x=%s\n" % s for s in chunk)
        argv = [mlr, "--ifs", "tab"] + flags + ["put"] + list(verbflags) + [PROGRAM]
    elif src == "jsonnumber":
        body = "".join('{"x": %s}\n' % s for s in chunk)
        argv = [mlr, "--ijsonl"] + flags + ["put"] + list(verbflags) + [PROGRAM]
    else:
        body = "".join('{"x": %s}\n' % json.dumps(s) for s in chunk)
        argv = [mlr, "--ijsonl"] + flags + ["put"] + list(verbflags) + [PROGRAM]
    return {"argv": argv, "stdin": body, "timeout_ms": 60000, "max_out": 64 << 20}


def run(tier, seed):
    t0 = time.time()
    rnd = random.Random(seed)
    V = vlib.Verdicts(PROP)
    mlr = vlib.build_mlr()
    thorough = tier == "thorough"
    cov = {"tlc_runs": [], "samples": []}
    # (MaxLen 4: 137 561 states, about 20 minutes on 12 idle workers, much longer on a loaded machine)
    laws = b3.check_laws("InferenceMC", {"MaxLen": 4 if thorough else 3}, timeout=13000 if thorough else 3000)
    if laws.violated:
        raise vlib.Inconclusive("Inference.tla violates its own laws: %s" % laws.violated)
    states, transitions = laws.distinct, laws.generated
    cov["tlc_runs"].append({"module": "InferenceMC", "MaxLen": 4 if thorough else 3, "distinct_states": laws.distinct, "result": "no error"})
    space, _ = b3.gen_cases("InferenceGen", {})
    space = space[0]
    alphabet = sorted(space["alphabet"])
    maxlen = 4 if thorough else 3
    strings = [""]
    for n in range(1, maxlen + 1):
        strings += ["".join(t) for t in itertools.product(alphabet, repeat=n)]
    extra_len = maxlen + 1
    # a seeded sample one token longer, and longer random strings
    more = set()
    while len(more) < (200000 if thorough else 15000):
        n = extra_len if rnd.random() < 0.7 else rnd.randrange(extra_len + 1, 10)
        more.add("".join(rnd.choice(alphabet) for _ in range(n)))
    strings += sorted(more)
    strings += sorted(space["boundary"])
    flagsets = [sorted(f) for f in space["flagsets"]]
    cases, meta = [], []
    for flags in flagsets:
        for src in space["sources"]:
            pool = strings
            if src == "jsonnumber":
                pool = [s for s in strings if JSON_NUMBER.match(s)]
            elif src == "jsonstring" and not thorough:
                pool = strings[:3000] + sorted(space["boundary"])
            for chunk in batches(pool, 4000):
                cases.append(case_for(mlr, flags, src, chunk))
                meta.append((flags, src, chunk))
            # the boundary spellings and a seeded sample once more under every spelling of the verb's legacy flags
            probe = sorted(space["boundary"]) + rnd.sample(pool, min(len(pool), 400))
            if src == "jsonnumber":
                probe = [s for s in probe if JSON_NUMBER.match(s)]
            for vf in VERB_SPELLINGS[1:]:
                cases.append(case_for(mlr, flags, src, probe, vf))
                meta.append((flags, src, probe))
    res = vlib.run_cases(cases)
    vlib.confirm_timeouts(cases, res)
    obs = []
    for (flags, src, chunk), case, r in zip(meta, cases, res):
        if r["exit"] != 0 or r["timed_out"]:
            # find the offending strings one by one (a crash on some spelling is a violation by itself)
            singles = [case_for(mlr, flags, src, [s]) for s in chunk]
            sres = vlib.run_cases(singles)
            lines = {}
            for i, (s, sr) in enumerate(zip(chunk, sres)):
                if sr["exit"] != 0 or sr["timed_out"]:
                    crash = "panic" in sr["stderr"] or "goroutine " in sr["stderr"] or sr["timed_out"]
                    V.violation({"why": "crash" if crash else "fatal error on a field value", "string": s, "src": src},
                                {"flags": flags, "stderr": sr["stderr"][:600]})
                else:
                    parts = sr["stdout"].rstrip("\n").split("|")
                    lines[i + 1] = parts
            out_lines = lines
        else:
            out_lines = {}
            for line in r["stdout"].split("\n"):
                parts = line.split("|")
                if len(parts) == 8 and parts[0].isdigit():
                    out_lines[int(parts[0])] = parts
        for i, s in enumerate(chunk, start=1):
            p = out_lines.get(i)
            if p is None or len(p) != 8:
                continue
            obs.append({"s": list(s), "flags": flags, "src": src, "t": TYPE_NAMES.get(p[1], p[1]), "tp": TYPE_NAMES.get(p[2], p[2]),
                        "vp": p[3], "isint": p[4] == "true", "isfloat": p[5] == "true", "isstring": p[6] == "true",
                        "isempty": p[7] == "true"})
    expected_obs = sum(len(m[2]) for m in meta)
    bad, n = b3.validate("InferenceObs", obs, chunk=40000, threads=8)
    states += n
    transitions += n
    for idx, p in bad:
        o = obs[idx]
        s = "".join(o["s"])
        shape = "oversize-decimal-integer" if re.match(r"^[+-]?[1-9][0-9]{18,}$", s) else "other"
        V.violation({"why": p["why"], "shape": shape, "src": o["src"]} if shape != "other" else
                    {"why": p["why"], "string": s, "flags": o["flags"], "src": o["src"]},
                    {"string": s, "flags": o["flags"], "src": o["src"], "typeof": o["t"], "typeof_plus_0": o["tp"], "plus_0": o["vp"]})
    import copy
    badset = {idx for idx, _ in bad}
    good = next((o for k, o in enumerate(obs) if k not in badset and o["t"] == "int" and o["vp"] not in ("", "16") and o["src"] == "field" and not o["flags"] and 1 <= len(o["s"]) <= 3), None)
    if good is None:
        st = {"ok": None, "why": "no conforming observation to corrupt"}
    else:
        cor = copy.deepcopy(good)
        cor["vp"] = "16"
        sb, _ = b3.validate("InferenceObs", [cor, good])
        st = {"ok": [b[0] for b in sb] == [0]}
    cov["obs_selftest"] = st
    if st["ok"] is False:
        raise vlib.Inconclusive("observation self-test failed")
    numeric = sum(1 for o in obs if o["t"] in ("int", "float"))
    cov["samples"] += [{"string": "".join(o["s"]), "flags": o["flags"], "src": o["src"], "typeof": o["t"], "plus_0": o["vp"]}
                       for o in (obs[len(obs) // 3], obs[len(obs) // 2], good or obs[0])]
    cov.update({
        "states": states, "transitions": transitions, "traces_validated_against_impl": len(obs),
        "evaluations": len(obs), "distinct_nontrivial": numeric,
        "rule": "all %d strings of length <= %d over the %d-token alphabet, %d seeded longer strings and %d boundary spellings x %d flag "
                "sets x {field, JSON number (where the string is one), JSON string}; non-trivial = inferred as a number; counted per observation"
                % (sum(len(alphabet) ** k for k in range(maxlen + 1)), maxlen, len(alphabet), len(more), len(space["boundary"]), len(flagsets)),
        "exhaustive": True, "observations_expected": expected_obs, "mlr_processes": len(cases),
    })
    rc = V.finish()
    vlib.write_evidence(PROP, tier, seed, time.time() - t0, cov, [
        "strings are over the alphabet [0 1 7 8 9 + - . e E x X o O b B a f A F _ space]; other digits/letters behave like their class",
        "where the reference is silent (upper-case prefixes, bare leading/trailing decimal point, exponents beyond doubles, signed "
        "16-digit hex, more than 64 bits of hex/octal/binary) several kinds are accepted",
        "values are checked for ints whose text is short enough for TLC's 32-bit integers; long ints are checked for kind only",
        "DSL literals and sort -n placement are not checked here",
    ], len(V.violations))
    return rc


def replay(path):
    with open(path) as f:
        print(f.read())
    return 0
