"""C09 — sort and the sorting functions return a correctly ordered permutation.

Sort.tla defines, from the documentation, the four collations (lexical, case-folded, natural, numeric) over a
tabulated universe of texts and the predicates ValidSort (mlr sort), ValidSWR (sort-within-records), ValidTop (top -a)
and ValidFn (DSL sort with flag strings / comparator functions, sort_collection).  TLC checks the laws of the
specification (SortMC: total preorders over all triples, ValidSort = ordered permutation, ...), enumerates the case
families (SortGen/SortCases), the rebuilt binary runs every case and SortObs judges each output.

Python here only spells command lines / DSL texts from the abstract cases and splits printed text back into the
abstract form; it never sorts or compares values."""
import json
import os
import time
from concurrent.futures import ThreadPoolExecutor

import b3
import vlib

PROP = "C09"

# bounds per tier: family -> (MaxLen, NSample)
BOUNDS = {
    "quick": {"s1": (2, 0), "s1s": (0, 300), "sk": (0, 3000), "sksep": (2, 600), "big": (0, 12), "swr": (3, 0), "top": (2, 0),
              "arr": (2, 0), "arrs": (0, 120), "mapk": (2, 150), "mapv": (2, 150)},
    "thorough": {"s1": (3, 0), "s1s": (0, 1000), "sk": (0, 15000), "sksep": (3, 6000), "big": (0, 100), "swr": (4, 0), "top": (3, 0),
                 "arr": (3, 0), "arrs": (0, 1000), "mapk": (3, 1000), "mapv": (3, 1000)},
}
LAW_BOUNDS = {"quick": {"preorder": 2, "sort": 2, "fn": 2}, "thorough": {"preorder": 2, "sort": 3, "fn": 3}}

# ---- spelling tables ------------------------------------------------------------------------------------------------
FLAG = {"f": "-f", "r": "-r", "c": "-c", "cr": "-cr", "n": "-n", "nf": "-nf", "nr": "-nr", "t": "-t", "tr": "-tr",
        "rt": "-rt"}
LAMBDA = {"ab": "func(a,b) {return a <=> b}", "ba": "func(a,b) {return b <=> a}",
          "akbk": "func(ak,av,bk,bv) {return ak <=> bk}", "bkak": "func(ak,av,bk,bv) {return bk <=> ak}",
          "avbv": "func(ak,av,bk,bv) {return av <=> bv}", "bvav": "func(ak,av,bk,bv) {return bv <=> av}"}
SHOW_ELEM = 'func(e) {return typeof(e) . ":" . e}'
SHOW_ENTRY = 'func(k,v) {return {k: k . "=" . typeof(v) . ":" . v}}'


def sort_argv(c, k):
    """mlr sort [-b] <flag> <field>...; runs of equal flags are spelt `-f a,b` on even case numbers
    (the reference: "mlr sort -f a,b -nr x,y,z ... is the same as mlr sort -f a -f b -nr x -nr y -nr z")."""
    args = ["sort"] + (["-b"] if c["b"] else [])
    keys, flags = list(c["keys"]), list(c["flags"])
    i = 0
    while i < len(keys):
        j = i + 1
        if k % 2 == 0:
            while j < len(keys) and flags[j] == flags[i]:
                j += 1
        args += [FLAG[flags[i]], ",".join(keys[i:j])]
        i = j
    return args


def call_text(c, coll_expr):
    if c["fn"] == "sort_collection":
        return "sort_collection(%s)" % coll_expr
    if c["how"] == "none":
        return "sort(%s)" % coll_expr
    if c["how"] == "flags":
        return 'sort(%s, "%s")' % (coll_expr, "".join(c["flags"]))
    return "sort(%s, %s)" % (coll_expr, lambda_text(c["lam"], coll_expr))


# "returning < 0, 0, or > 0 as a < b, a == b, or a > b": only the sign of the comparator's result counts; the same function is
# also spelled so that it returns fractions and large numbers (a rendering table; which spelling a call gets depends on the
# text of its collection only, so that it is stable)
SCALES = ["%s", "(%s) * 0.5", "(%s) * 7", "(%s) / 4", "(%s) * 0.001"]


def lambda_text(lam, coll_expr):
    import zlib
    t = LAMBDA[lam]
    body = t[t.index("return ") + 7:t.rindex("}")]
    return t[:t.index("return ") + 7] + SCALES[zlib.crc32((lam + coll_expr).encode()) % len(SCALES)] % body + "}"


def fn_group(c):
    """(DSL text, rendering of the input as fields) of a DSL case; cases with the same DSL text share a process."""
    if c["coll"] == "array":
        names, fields, n = [], [], 0
        for kind, text in c["in"]:
            if kind == "b":
                names.append(text)                      # the literal true / false
            else:
                n += 1
                names.append("$p%d" % n)
                fields.append(("p%d" % n, text))
        expr = call_text(c, "[" + ", ".join(names) + "]")
        dsl = 'print $id . "|" . joinv(apply(%s, %s), ";")' % (expr, SHOW_ELEM)
        return dsl, fields
    fields = [(k, e[1]) for k, e in c["in"]]
    expr = call_text(c, "$*")
    show = SHOW_ELEM if c["fn"] == "sort_collection" else SHOW_ENTRY
    dsl = 'id = $id; unset $id; print id . "|" . joinv(apply(%s, %s), ";")' % (expr, show)
    return dsl, fields


def parse_elem(tok):
    typ, _, text = tok.partition(":")
    return ["b" if typ in ("boolean", "bool") else "d", text]


def parse_fn_line(c, rest):
    if rest == "":
        return []
    toks = rest.split(";")
    if c["coll"] == "array" or c["fn"] == "sort_collection":
        return [parse_elem(t) for t in toks]
    out = []
    for t in toks:
        k, _, tv = t.partition("=")
        out.append([k, parse_elem(tv)])
    return out


def batch_flags(k):
    if k % 5 == 0:
        return ["--records-per-batch", "1"]
    if k % 5 == 1:
        return ["--records-per-batch", "2"]
    return []


# ---- numbers at the edges of the 53-bit / 64-bit ranges (SortBig.tla) ---------------------------------------------
BIG_COLLECT = "begin{@v=[]} @v[NR]=$x; "
BIG_CMDS = {     # spelling of SortBig.tla's commands
    "sort-nf": ["sort", "-nf", "x"], "sort-nr": ["sort", "-nr", "x"], "sort-f-nf": ["sort", "-f", "k", "-nf", "x"],
    "top-max": ["top", "-n", "1", "-f", "x", "-a"], "top-min": ["top", "-n", "1", "-f", "x", "-a", "--min"],
    "dsl-sort": ["put", "-q", BIG_COLLECT + "end{for (e in sort(@v)) {print e}}"],
    "dsl-sort-nr": ["put", "-q", BIG_COLLECT + 'end{for (e in sort(@v, "nr")) {print e}}'],
    "dsl-sort-func": ["put", "-q", BIG_COLLECT + "end{for (e in sort(@v, func(a,b) {return a <=> b})) {print e}}"],
    "sort_collection": ["put", "-q", BIG_COLLECT + "end{for (e in sort_collection(@v)) {print e}}"],
    "dsl-sort-map-by-value": ["put", "-q", "@m[NR]=$x; end{for (k,v in sort(@m, func(ak,av,bk,bv) {return av <=> bv})) {print v}}"],
}


def bignum(mlr, tier, seed, V, cov):
    """Numeric sorting of values exactly representable as doubles near 2^53 and 2^63: TLC enumerates (command, list),
    mlr runs them, SortBigObs judges (a permutation, in by-value order)."""
    consts = {"ExLen": 2, "MaxLen": 4, "NSample": 60} if tier != "thorough" else {"ExLen": 3, "MaxLen": 5, "NSample": 1500}
    cases, g = b3.gen_cases("SortBigGen", consts, timeout=3000, seed=seed)
    runs = []
    for k, x in enumerate(cases):
        runs.append({"argv": [mlr] + batch_flags(k) + BIG_CMDS[x["c"]], "stdin": "".join("k=a,x=%s\n" % t for t in x["s"]),
                     "timeout_ms": 10000})
    res = vlib.run_cases(runs)
    vlib.confirm_timeouts(runs, res)
    obs = []
    for x, r in zip(cases, res):
        lines = [ln for ln in r["stdout"].split("\n") if ln != ""]
        if x["c"].startswith(("sort-", "top-")):
            out = [dict(p.partition("=")[::2] for p in ln.split(",")).get("x", "?") for ln in lines]
        else:
            out = lines
        obs.append({"c": x["c"], "s": x["s"], "out": out, "exit": -2 if r["timed_out"] else r["exit"]})
    bad, n = b3.validate("SortBigObs", obs, chunk=5000, threads=4)
    for idx, why in bad:
        V.violation({"family": "bignum", "cmd": obs[idx]["c"], "why": why.get("why")},
                    {"argv": runs[idx]["argv"][1:], "input": obs[idx]["s"], "observed": obs[idx]["out"], "exit": obs[idx]["exit"],
                     "stderr": res[idx]["stderr"][:300]})
    badset = {i for i, _ in bad}
    base = next((o for i, o in enumerate(obs) if i not in badset and o["c"] == "sort-nf" and len(set(o["out"])) >= 3
                 and len({t for t in o["out"] if t not in ("5", "5.0", "4611686018427387904", "4611686018427387904.0")}) >= 2), None)
    if base is None:
        st = {"ok": None, "why": "no conforming observation to corrupt"}
    else:
        cor = dict(base, out=list(reversed(base["out"])))
        sb, _ = b3.validate("SortBigObs", [cor, base])
        st = {"ok": [b[0] for b in sb] == [0]}
    cov["bignum"] = {"cases": len(cases), "consts": consts, "non_conforming": len(bad), "selftest_reversed_output": st,
                     "universe": "12 texts exactly representable as doubles: +-(2^63+2048), +-2^63 (-2^63 an int, 2^63 a float), 2^62 as int and float, 2^53, 1e19, small ints"}
    cov["tlc_runs"].append({"module": "SortBigGen", "consts": consts, "cases": len(cases), "wall_s": round(g.wall, 1)})
    if st["ok"] is False:
        raise vlib.Inconclusive("bignum self-test: a reversed sort output was not reported")
    return g.distinct + n, len(cases)


def run(tier, seed):
    t0 = time.time()
    V = vlib.Verdicts(PROP)
    # VERIF_C09_MLR: judge a prebuilt binary instead (used to try the check on mutants without touching /verif/build)
    mlr = os.environ.get("VERIF_C09_MLR") or vlib.build_mlr()
    vlib.build_harness("runner", tags="")
    thorough = tier == "thorough"
    bounds = BOUNDS["thorough" if thorough else "quick"]
    cov = {"tlc_runs": [], "samples": []}
    pool = ThreadPoolExecutor(6)

    # ---- the laws of the specification (in the background) and the case families
    law_f = {law: pool.submit(b3.check_laws, "SortMC", {"Law": '"%s"' % law, "MaxLen": n}, ("Laws",), 3000, 2)
             for law, n in LAW_BOUNDS["thorough" if thorough else "quick"].items()}
    gen_f = {fam: pool.submit(b3.gen_cases, "SortGen",
                              {"Family": '"%s"' % fam, "MaxLen": ml, "NSample": ns, "Seed": seed}, 6000)
             for fam, (ml, ns) in bounds.items()}
    states = transitions = 0
    fams = {}
    for fam, f in gen_f.items():
        cases, g = f.result()
        fams[fam] = cases
        states += g.distinct
        transitions += g.generated
        cov["tlc_runs"].append({"module": "SortGen", "family": fam, "MaxLen": bounds[fam][0], "NSample": bounds[fam][1],
                                "cases": len(cases), "wall_s": round(g.wall, 1)})

    # ---- render
    runs, slots = [], []      # slots[i]: how the output of run i maps to observations
    obs = []                  # abstract observations, filled after the runs
    k = 0
    for fam in ("s1", "s1s", "sk", "sksep", "big"):
        for c in fams[fam]:
            cfg = {"keys": c["keys"], "flags": c["flags"], "b": c["b"]}
            # (family sksep: values hold commas, so the fields are separated by semicolons)
            sepflags, sep = (["--ifs", ";", "--ofs", ";"], ";") if fam == "sksep" else ([], ",")
            runs.append({"argv": [mlr] + sepflags + batch_flags(k) + sort_argv(c, k), "stdin": b3.dkvp(c["s"], sep), "timeout_ms": 10000,
                         "_sep": sep})
            slots.append(("stream", len(obs)))
            obs.append({"fam": "sort", "sub": fam, "c": cfg, "s": c["s"],
                        "cmd": {"argv": runs[-1]["argv"][1:], "stdin": runs[-1]["stdin"]}})
            k += 1
    for c in fams["top"]:
        argv = ["top", "-n", str(c["n"]), "-f", "x", "-a"] + (["--min"] if c["min"] else [])
        runs.append({"argv": [mlr] + batch_flags(k) + argv, "stdin": b3.dkvp(c["s"]), "timeout_ms": 10000})
        slots.append(("stream", len(obs)))
        obs.append({"fam": "top", "sub": "top", "c": {"n": c["n"], "min": c["min"]}, "s": c["s"],
                    "cmd": {"argv": runs[-1]["argv"][1:], "stdin": runs[-1]["stdin"]}})
        k += 1
    # sort-within-records: one process per option, one record per case
    by_opt = {}
    for c in fams["swr"]:
        by_opt.setdefault(c["o"], []).append(c)
    for o, cs in sorted(by_opt.items()):
        idx = []
        for c in cs:
            idx.append(len(obs))
            obs.append({"fam": "swr", "sub": "swr", "o": o, "r": c["r"],
                        "cmd": {"argv": ["sort-within-records"] + ([o] if o else []), "stdin": b3.dkvp([c["r"]])}})
        runs.append({"argv": [mlr, "sort-within-records"] + ([o] if o else []), "stdin": b3.dkvp([c["r"] for c in cs]),
                     "timeout_ms": 60000, "max_out": 1 << 28})
        slots.append(("lines", idx))
    # DSL functions: one process per DSL text, one record per case
    groups = {}
    for fam in ("arr", "arrs", "mapk", "mapv"):
        for c in fams[fam]:
            dsl, fields = fn_group(c)
            groups.setdefault(dsl, []).append((c, fields, fam))
    dsl_texts = 0
    for dsl, members in sorted(groups.items()):
        dsl_texts += 1
        idx, lines = [], []
        for n, (c, fields, fam) in enumerate(members):
            idx.append(len(obs))
            cfg = {"fn": c["fn"], "coll": c["coll"], "how": c["how"], "flags": c["flags"], "lam": c["lam"]}
            lines.append(",".join(["id=%d" % n] + ["%s=%s" % kv for kv in fields]))
            obs.append({"fam": "fn", "sub": fam, "c": cfg, "in": c["in"],
                        "cmd": {"argv": ["put", "-q", dsl], "stdin": lines[-1] + "\n"}})
        runs.append({"argv": [mlr, "put", "-q", dsl], "stdin": "\n".join(lines) + "\n", "timeout_ms": 120000,
                     "max_out": 1 << 28})
        slots.append(("ids", idx))
    vlib.log("[c09] %.0fs: %d observations to make in %d mlr processes (%d DSL texts)"
             % (time.time() - t0, len(obs), len(runs), dsl_texts))

    # ---- run and parse back
    res = vlib.run_cases(runs)
    vlib.confirm_timeouts(runs, res)
    for r, (how, where), rn in zip(res, slots, runs):
        ex = -2 if r["timed_out"] else r["exit"]
        if how == "stream":
            obs[where].update({"out": b3.parse_dkvp(r["stdout"], rn.get("_sep", ",")), "exit": ex, "stderr": r["stderr"][:300]})
        elif how == "lines":
            recs = b3.parse_dkvp(r["stdout"])
            aligned = len(recs) == len(where)
            for n, i in enumerate(where):
                obs[i].update({"out": recs[n] if aligned else [], "exit": ex if aligned else (ex or -3),
                               "stderr": r["stderr"][:300]})
        else:
            got = {}
            for line in r["stdout"].split("\n"):
                ident, bar, rest = line.partition("|")
                if bar and ident.isdigit():
                    got[int(ident)] = rest
            for n, i in enumerate(where):
                if n in got:
                    obs[i].update({"out": parse_fn_line(obs[i]["c"], got[n]), "exit": ex, "stderr": r["stderr"][:300]})
                else:
                    obs[i].update({"out": [], "exit": ex or -3, "stderr": r["stderr"][:300]})

    vlib.log("[c09] %.0fs: runs done" % (time.time() - t0))
    # ---- TLC judges
    def slim(o):
        return {f: o[f] for f in ("fam", "c", "s", "o", "r", "in", "out", "exit") if f in o}
    bad, n = b3.validate("SortObs", [slim(o) for o in obs], chunk=6000, threads=6)
    states += n
    transitions += n
    for idx, why in bad:
        o = obs[idx]
        key = {"family": o["fam"], "sub": o["sub"], "why": why.get("why"), "keymix": why.get("keymix")}
        if o["fam"] in ("sort", "top"):
            key["config"] = o["c"]
        elif o["fam"] == "swr":
            key["config"] = o["o"]
        else:
            key.update({"fn": o["c"]["fn"], "coll": o["c"]["coll"], "how": o["c"]["how"],
                        "flags": "".join(o["c"]["flags"]), "lam": o["c"]["lam"]})
        V.violation(key, {"case": slim(o), "cmd": o["cmd"], "stderr": o.get("stderr", "")})

    vlib.log("[c09] %.0fs: judged, %d non-conforming" % (time.time() - t0, len(bad)))
    # for information: valid but not stable (the help text's stronger claim), on the big streams
    big = [slim(o) for o in obs if o["sub"] == "big"]
    unstable, n2 = b3.validate("SortObs", big, chunk=6000, threads=6, invariant="StableInfo") if big else ([], 0)
    states += n2
    transitions += n2
    cov["valid_but_unstable_big_streams"] = {"checked": len(big), "unstable": len(unstable)}

    # ---- laws
    for law, f in law_f.items():
        r = f.result()
        cov["tlc_runs"].append({"module": "SortMC", "law": law, "MaxLen": LAW_BOUNDS["thorough" if thorough else "quick"][law],
                                "distinct_states": r.distinct, "result": r.violated or "no error", "wall_s": round(r.wall, 1)})
        if r.violated:
            raise vlib.Inconclusive("the specification itself violates a law of the property (%s): %s" % (law, r.violated))
        states += r.distinct
        transitions += r.generated
    pool.shutdown()

    bn_states, bn_cases = bignum(mlr, tier, seed, V, cov)
    states += bn_states
    transitions += bn_states
    vlib.log("[c09] %.0fs: laws and bignum family done" % (time.time() - t0))
    # ---- non-vacuity: a reversed output of a conforming 24-record lexical sort must be reported
    badset = {idx for idx, _ in bad}
    cand = [slim(o) for i, o in enumerate(obs)
            if i not in badset and o["sub"] == "big" and o["c"]["flags"] == ["f"] and o["exit"] == 0]
    cand2 = [slim(o) for i, o in enumerate(obs)
             if i not in badset and o["fam"] == "fn" and len(o["out"]) >= 2 and o["exit"] == 0]

    def reverse_out(a):
        a["out"] = a["out"][::-1]
    # (when nothing conforms there is nothing to corrupt - and the violations are reported anyway)
    skipped = {"ok": bool(bad), "skipped": "no conforming candidate"}
    st = b3.selftest_corruption("SortObs", cand, mutate=reverse_out) if cand else skipped
    st2 = b3.selftest_corruption("SortObs", cand2) if cand2 else skipped
    cov["obs_selftest"] = {"reversed_sort_output": st, "dropped_function_element": st2}
    if not (st["ok"] and st2["ok"]):
        raise vlib.Inconclusive("observation self-test failed: %r %r" % (st, st2))

    def nontrivial(o):
        src = o.get("s", o.get("r", o.get("in")))
        return o["exit"] == 0 and o["out"] and o["out"] != src
    distinct = {json.dumps(slim(o), sort_keys=True) for o in obs if nontrivial(o)}
    per_family = {}
    for o in obs:
        per_family[o["sub"]] = per_family.get(o["sub"], 0) + 1
    for i in (len(obs) // 11, len(obs) // 3, len(obs) // 2, len(obs) - 7):
        if 0 <= i < len(obs):
            cov["samples"].append(slim(obs[i]))
    cov.update({
        "states": states, "transitions": transitions, "traces_validated_against_impl": len(obs),
        "evaluations": len(obs), "mlr_processes": len(runs), "distinct_nontrivial": len(distinct),
        "observations_per_family": per_family,
        "rule": "case families of SortCases.tla: s1 = every stream of <= %d records over 19 value texts + missing key x 10 "
                "flags; s1s/sk/big = seeded samples (3..5 records, 2-3 keys with mixed flags, 24-record streams with "
                "19 distinct groups); swr/top/arr/mapk/mapv = every record/stream/array/map up to the family's length "
                "bound x every option/flag string/comparator function, plus seeded longer ones; non-trivial = exit 0, "
                "output non-empty and different from the input; distinct by (case, output)" % bounds["s1"][0],
        "exhaustive": False,
        "functions_absent_from_this_tree": ["sort_by_key", "sort_by_value"],
    })
    rc = V.finish()
    vlib.write_evidence(PROP, tier, seed, time.time() - t0, cov, [
        "values range over the 19 texts tabulated in Sort.tla (plus field-name/map-key texts); NaN, locale collation, "
        "very long strings and 64-bit boundary numbers are outside the universe",
        "where the documentation is silent or two-voiced (place of empties among non-numbers in numeric order, case "
        "sensitivity and the empty text in natural order, order of keys that compare equal but differ in text) any "
        "documented reading is accepted (Choices in Sort.tla)",
        "top is judged with -a on numeric values only; sort-within-records on flat records",
        "sampled families are a seeded sample, not exhaustive; the harness only spells flags / DSL texts and splits "
        "DKVP lines and printed arrays",
    ], len(V.violations))
    return rc


def replay(path):
    """Re-runs the command of a violation file on the rebuilt binary and prints what it prints now."""
    with open(path) as f:
        v = json.load(f)
    print(json.dumps(v["key"], indent=1))
    print("case:", json.dumps(v["detail"]["case"]))
    cmd = v["detail"]["cmd"]
    mlr = os.environ.get("VERIF_C09_MLR") or vlib.build_mlr()
    p = vlib.sh([mlr] + cmd["argv"], input=cmd["stdin"], check=False, timeout=60)
    print("$ mlr %s   <<< %r" % (" ".join(repr(a) for a in cmd["argv"]), cmd["stdin"]))
    print(p.stdout, end="")
    print("exit %d %s" % (p.returncode, p.stderr[:300]))
    return 0
