"""C02 — format conversion changes syntax only; nesting flattens/unflattens losslessly; spellings are equivalent.

Convert.tla defines Flatten / Unflatten / Arrayify, the auto-flatten rules and what each format can carry (from
flatten-unflatten.md, file-formats.md, record-heterogeneity.md); Flags.tla is the documented table of spellings (the
keystroke-saver matrix, file-format flags, -i/-o/--io, the lite family, separator aliases and defaults, .mlrrc forms).
TLC checks the laws on the specification (ConvertMC), enumerates nested records, flat streams x format paths and the
whole flag table (ConvertGen); the rebuilt binary runs every conversion pipeline / every flag next to its expansion;
ConvertObs judges.  This file only spells command lines, renders records as text and splits text back into records."""
import json
import os
import random
import time
from concurrent.futures import ThreadPoolExecutor

import b3
import vlib

PROP = "C02"

# ---- spelling tables (no semantics) ---------------------------------------------------------------------------
STEM = {"markdown": "md"}
ATOM_BYTES = {"\\r": "\r", "\\n": "\n", "\\t": "\t"}
# the separators of the formats that are CSV-lite with other separators (file-formats.md), for rendering probes
LITE_SEPS = {"asv": ("\x1f", "\x1e"), "usv": ("\u241f", "\u241e"), "tsvlite": ("\t", "\n"), "csvlite": (",", "\n")}
READBACK = {"asv": ["--icsvlite", "--ifs", "\\x1f", "--irs", "\\x1e"], "usv": ["--icsvlite", "--ifs", "\\xe2\\x90\\x9f", "--irs", "\\xe2\\x90\\x9e"],
            "dkvpx": ["--io", "dkvpx"]}
ENV0 = {"MLRRC": "__none__", "HOME": "home"}


def iflag(fmt):
    return "--i" + STEM.get(fmt, fmt)


def oflag(fmt):
    return "--o" + STEM.get(fmt, fmt)


def atom_text(a):
    """The characters an atom of the alias list stands for (the list's own notation)."""
    if a in ATOM_BYTES:
        return ATOM_BYTES[a]
    if a.startswith("\\x"):
        return bytes([int(a[2:], 16)]).decode("latin-1")
    return a


def raw_of(atoms):
    return "".join(atom_text(a) for a in atoms).encode("latin-1").decode("utf-8")


def token(tok):
    kind, v = tok
    if kind == "t":
        return v
    if kind == "raw":
        return raw_of(v)
    return "".join(v)          # "esc": typed as the documentation prints it


# ---- abstract records <-> text ----------------------------------------------------------------------------------

def ktext(k):
    return "".join(k)


def to_py(v, num):
    tag, body = v
    if tag == "s":
        if num and body.isdigit() and (body == "0" or body[0] != "0"):
            return int(body)
        return body
    if tag == "m":
        return {ktext(k): to_py(x, num) for k, x in body}
    return [to_py(x, num) for x in body]


def rec_py(rec, num=False):
    return {ktext(k): to_py(v, num) for k, v in rec}


def from_py(v):
    if isinstance(v, _Obj):
        return ["m", [[list(k), from_py(x)] for k, x in v.pairs]]
    if isinstance(v, list):
        return ["a", [from_py(x) for x in v]]
    if isinstance(v, str):
        return ["s", v]
    if v is True:
        return ["s", "true"]
    if v is False:
        return ["s", "false"]
    if v is None:
        return ["s", "null"]
    return ["s", str(v)]


class _Obj:
    def __init__(self, pairs):
        self.pairs = pairs


def parse_json_records(text):
    """JSON or JSON Lines text -> list of abstract records (numbers keep their spelling); None if it does not parse."""
    dec = json.JSONDecoder(object_pairs_hook=_Obj, parse_int=str, parse_float=str, parse_constant=str)
    out, i, n = [], 0, len(text)
    try:
        while True:
            while i < n and text[i] in " \t\r\n,":
                i += 1
            if i >= n:
                break
            v, i = dec.raw_decode(text, i)
            items = v if isinstance(v, list) else [v]
            for it in items:
                if not isinstance(it, _Obj):
                    return None
                out.append([[list(k), from_py(x)] for k, x in it.pairs])
    except ValueError:
        return None
    return out


def blocks(stream):
    """Consecutive records with the same key list."""
    out = []
    for rec in stream:
        keys = [ktext(k) for k, _ in rec]
        if out and out[-1][0] == keys:
            out[-1][1].append(rec)
        else:
            out.append((keys, [rec]))
    return out


def render(fmt, stream, seps=None, hdr=True, num=False):
    """Text of a stream in a format, for benign cells. seps: (fs, ps, rs) texts or None for the defaults."""
    val = lambda v: v[1]
    if fmt == "jsonl":
        return "".join(json.dumps(rec_py(r, num)) + "\n" for r in stream)
    if fmt == "json":
        return "[\n" + ",\n".join(json.dumps(rec_py(r, num), indent=2) for r in stream) + "\n]\n"
    if fmt == "yaml":
        return "".join("".join(("- " if i == 0 else "  ") + json.dumps(ktext(k)) + ": " + json.dumps(val(v)) + "\n"
                               for i, (k, v) in enumerate(r)) for r in stream)
    if fmt in ("dkvp", "dkvpx"):
        fs, ps, rs = seps or (",", "=", "\n")
        return "".join(fs.join(ktext(k) + ps + val(v) for k, v in r) + rs for r in stream)
    if fmt == "nidx":
        fs, _, rs = seps or (" ", "", "\n")
        return "".join(fs.join(val(v) for _, v in r) + rs for r in stream)
    if fmt == "xtab":
        return "\n".join("".join(ktext(k) + " " + val(v) + "\n" for k, v in r) for r in stream)
    if fmt in ("dcf", "recutils"):
        return "".join("".join(ktext(k) + ": " + val(v) + "\n" for k, v in r) + "\n" for r in stream)
    if fmt == "markdown":
        out = []
        for keys, recs in blocks(stream):
            out.append("| " + " | ".join(keys) + " |\n| " + " | ".join("---" for _ in keys) + " |\n"
                       + "".join("| " + " | ".join(val(v) for _, v in r) + " |\n" for r in recs))
        return "\n".join(out)
    if fmt in ("csv", "tsv", "csvlite", "tsvlite", "asv", "usv", "pprint"):
        if seps:
            fs, _, rs = seps
        elif fmt in LITE_SEPS:
            fs, rs = LITE_SEPS[fmt]
        else:
            fs, rs = {"csv": ",", "tsv": "\t", "pprint": " "}[fmt], "\n"
        out = []
        for keys, recs in blocks(stream):
            out.append((fs.join(keys) + rs if hdr else "") + "".join(fs.join(val(v) for _, v in r) + rs for r in recs))
        return rs.join(out)
    raise ValueError(fmt)


# ---- command lines ------------------------------------------------------------------------------------------------

def sh_quote(s):
    return "'" + s.replace("'", "'\\''") + "'"


def path_shell(mlr, path, sep, noun, sepflag):
    """mlr --iA --oB cat < in.txt > s1.txt && mlr --iB --oC cat < s1.txt > s2.txt ..."""
    cmds = []
    septext = "".join(sep)
    for i in range(len(path) - 1):
        a = [mlr, iflag(path[i]), oflag(path[i + 1])]
        if sepflag:
            a += ["--flatsep", septext]
        if noun and i == len(path) - 2:
            a += ["--no-auto-unflatten"]
        a += ["cat"]
        src = "in.txt" if i == 0 else "s%d.txt" % i
        cmds.append(" ".join(sh_quote(x) for x in a) + " < %s > s%d.txt" % (src, i + 1))
    return " && ".join(cmds)


def run(tier, seed):
    t0 = time.time()
    rnd = random.Random(seed)
    V = vlib.Verdicts(PROP)
    mlr = vlib.build_mlr()
    thorough = tier == "thorough"
    os.environ.pop("XDG_CONFIG_HOME", None)
    os.environ.pop("MLRRC", None)
    cov = {"tlc_runs": [], "samples": []}
    consts = {"MaxFields": 2, "NumKeys": 3, "NumScalars": 2, "MaxLen": 2}
    # the nested spaces: (keys, scalars) -- quick: a,1,2 x "",x (43 692 records); thorough: a,b,1,2 x "",x and a,1,2 x "",x,7
    spaces = [(4, 2), (3, 3)] if thorough else [(3, 2)]
    workers = int(os.environ.get("VERIF_TLC_WORKERS", "0") or 0) or min(8, vlib.NPROC)
    states = transitions = 0

    # ---- 1. laws on the specification, and case generation, side by side ---------------------------------------
    def laws(space, invs, slices, nk=3, ns=2):
        c = dict(consts, Space='"%s"' % space, Slices=slices, NumKeys=nk, NumScalars=ns)
        r = b3.check_laws("ConvertMC", c, invariants=invs, timeout=3000, workers=workers if slices > 1 else 1)
        return space, invs, r

    def gen(family, maxlen=None, nk=3, ns=2):
        c = dict(consts, Family='"%s"' % family, Slices=16, NumKeys=nk, NumScalars=ns)
        if maxlen is not None:
            c["MaxLen"] = maxlen
        printed, r = b3.gen_cases("ConvertGen", c, timeout=3000, workers=workers)
        return family, printed, r

    parts = set((os.environ.get("VERIF_C02_PARTS") or "nested,flat,flags").split(","))    # development aid; default: everything
    full = parts == {"nested", "flat", "flags"}
    jobs = []
    if full:
        jobs += [(laws, ("table", ("TableLaws", "Injective", "NeedsSepFree"), 1)),
                 (laws, ("sepkeys", ("Laws",), 16)), (laws, ("paths", ("Laws", "AllPathLaws"), 16))]
        jobs += [(laws, ("nested", ("Laws",), 16, nk, ns)) for nk, ns in spaces]
    if "flags" in parts:
        jobs += [(gen, ("flags",))]
    if "nested" in parts:
        jobs += [(gen, ("nested", None, nk, ns)) for nk, ns in spaces] + [(gen, ("sepkeys",))]
    if "flat" in parts:
        jobs += [(gen, ("pairs",)), (gen, ("triples", 2 if thorough else 1))]
    fam = {}
    with ThreadPoolExecutor(3) as ex:
        for res in ex.map(lambda j: j[0](*j[1]), jobs):
            if len(res) == 3 and isinstance(res[1], tuple):
                space, invs, r = res
                cov["tlc_runs"].append({"module": "ConvertMC", "space": space, "invariants": list(invs), "distinct_states": r.distinct,
                                        "result": r.violated or "no error", "wall_s": round(r.wall, 1)})
                if r.violated:
                    raise vlib.Inconclusive("the specification itself violates a law of the property: %s on %s" % (r.violated, space))
                states += r.distinct
                transitions += r.generated
            else:
                family, printed, r = res
                got = [x for x in printed if isinstance(x, dict)]
                fam[family] = fam.get(family, []) + got
                cov["tlc_runs"].append({"module": "ConvertGen", "family": family, "cases": len(got), "wall_s": round(r.wall, 1)})
                states += r.distinct
                transitions += r.generated
    vlib.log("[c02] laws and generation done at %.0fs: %s" % (time.time() - t0, {k: len(v) for k, v in fam.items()}))

    cases, meta = [], []        # runner cases and what they are
    for f in ("flags", "nested", "sepkeys", "pairs", "triples"):
        fam.setdefault(f, [])

    def add_path(path, sep, noun, s, text, why):
        k = len(cases)
        sepflag = sep != ["."] or k % 2 == 1
        cases.append({"shell": path_shell(mlr, path, sep, noun, sepflag), "files": {"in.txt": text}, "collect": True,
                      "env": dict(ENV0), "timeout_ms": 20000, "max_out": 1 << 20})
        meta.append({"t": "path", "path": path, "sep": sep, "noun": noun, "s": s, "why": why})

    # ---- 2. nested records: JSON <-> tabular round trips, in batches ---------------------------------------------
    HET_ANY, HET_NE, HOM_ANY, HOM_NE = ["dkvp", "csvlite", "tsvlite"], ["xtab", "pprint"], ["csv", "tsv"], ["markdown"]

    def nested_paths(carriers, rnd):
        t, t2 = rnd.choice(carriers), rnd.choice(carriers)
        j1, j2 = rnd.choice(["json", "jsonl"]), rnd.choice(["json", "jsonl"])
        return rnd.choice([
            ([j1, t, j2], False), ([j1, t, j2], False), ([j1, t, "jsonl"], True), ([j1, t, t2, j2], False), ([j1, j2, t, "jsonl"], False),
            ([j1, t, t2, t, "jsonl"], True), ([j1, "yaml", t, j2], False), ([j1, t, "yaml", "jsonl"], False), ([j1, "yaml", "jsonl"], False)])

    def batches(recs, size):
        for i in range(0, len(recs), size):
            yield recs[i:i + size]

    nested = fam["nested"] + fam["sepkeys"]
    rnd.shuffle(nested)
    passes = 1
    bsize = 200
    for ps in range(passes):
        if thorough:
            pools = [(nested, ["dkvp"]), ([x for x in nested if not x["je"]], HET_ANY), ([x for x in nested if x["ne"]], HET_ANY + HET_NE)]
        else:
            # quick: every record once, through a carrier that can take it
            pa, pb, pc = [], [], []
            for x in nested:
                (pa if x["je"] else pc if x["ne"] and rnd.random() < 0.7 else pb).append(x)
            pools = [(pa, ["dkvp"]), (pb, HET_ANY), (pc, HET_NE)]
        for pool, carriers in pools:
            pool = list(pool)
            rnd.shuffle(pool)
            for b in batches(pool, bsize):
                sep = rnd.choice([[".",], [":"], [";"]])
                b = [x for x in b if sep in x["seps"]]
                if not b:
                    continue
                path, noun = nested_paths(carriers, rnd)
                s = [x["r"] for x in b]
                add_path(path, sep, noun, s, render(path[0], s, num=len(cases) % 3 == 0), "nested-batch")
        # same-shape batches for the formats that want homogeneous streams
        groups = {}
        for x in nested:
            if not x["je"]:
                groups.setdefault(json.dumps(x["shape"]), []).append(x)
        glist = list(groups.values())
        rnd.shuffle(glist)
        glist = glist[:8000 if thorough else 600]
        for g in glist:
            rnd.shuffle(g)
            for b in batches(g, bsize):
                sep = rnd.choice([[".",], [":"], [";"]])
                b = [x for x in b if sep in x["seps"]]
                if not b:
                    continue
                ne = all(x["ne"] for x in b)
                path, noun = nested_paths(HOM_ANY + (HOM_NE if ne else []), rnd)
                s = [x["r"] for x in b]
                add_path(path, sep, noun, s, render(path[0], s, num=len(cases) % 3 == 0), "nested-shape")
    n_nested_cases = len(cases)

    # ---- 3. flat streams x pairs and triples of formats ------------------------------------------------------------
    def stratified(cs, quota):
        """A seeded sample that takes the same number of cases from every format path, as far as the quota goes."""
        groups = {}
        for c in cs:
            groups.setdefault(tuple(c["path"]), []).append(c)
        keys = sorted(groups)
        rnd.shuffle(keys)
        for k in keys:
            rnd.shuffle(groups[k])
        out, depth = [], 0
        while len(out) < quota and any(len(groups[k]) > depth for k in keys):
            for k in keys:
                if len(groups[k]) > depth and len(out) < quota:
                    out.append(groups[k][depth])
            depth += 1
        return out

    all_pairs, all_triples = fam["pairs"], fam["triples"]
    pairs = stratified(all_pairs, 25000 if thorough else 2400)
    triples = stratified(all_triples, 8000 if thorough else 600)
    for c in pairs + triples:
        add_path(c["path"], c["sep"], c["noun"], c["s"], render(c["path"][0], c["s"], num=len(cases) % 2 == 0), "flat")

    # ---- 4. the flag table: phase one runs every entry and its expansion ----------------------------------------------
    flags = fam["flags"]
    fidx = []
    for x in flags:
        e, probe = x["e"], x["probe"]
        isep = tuple(raw_of(a) for a in e["isep"]) if e["isep"] else None
        text = render(e["in"], probe, seps=isep, hdr=e["hdr"])
        files, env = {}, {"HOME": "home"}
        for where, lines in e["rc"]:
            body = "".join(line + "\n" for line in lines)
            if where == "env":
                files["rcfile"] = body
                env["MLRRC"] = "rcfile"
            elif where == "envnone":
                env["MLRRC"] = "__none__"
            elif where == "home":
                files["home/.mlrrc"] = body
            elif where == "cwd":
                files[".mlrrc"] = body
            elif where == "xdg":
                files["xdg/miller/mlrrc"] = body
                env["XDG_CONFIG_HOME"] = "xdg"
            elif where == "xdgdefault":
                files["home/.config/miller/mlrrc"] = body
            else:
                raise ValueError(where)
        if not e["rc"]:
            env["MLRRC"] = "__none__"
        i0 = len(cases)
        cases.append({"argv": [mlr] + [token(t) for t in e["argv"]] + ["cat"], "stdin": text, "files": files, "env": env, "timeout_ms": 10000})
        meta.append({"t": "flagrun"})
        cases.append({"argv": [mlr] + [token(t) for t in e["exp"]] + ["cat"], "stdin": text, "env": dict(ENV0), "timeout_ms": 10000})
        meta.append({"t": "exprun"})
        fidx.append(i0)

    vlib.log("[c02] %d cases (%d nested batches, %d flat paths, %d table entries)" % (
        len(cases), n_nested_cases, len(pairs) + len(triples), len(flags)))
    res = vlib.run_cases(cases)
    vlib.confirm_timeouts(cases, res)
    vlib.log("[c02] cases run at %.0fs" % (time.time() - t0))

    # phase two: read the text written under each flag back as JSON Lines
    rb_cases, rb_of = [], {}
    for x, i0 in zip(flags, fidx):
        e = x["e"]
        if e["out"] in ("json", "jsonl"):
            continue
        a = [mlr] + READBACK.get(e["out"], [iflag(e["out"])])
        if e["osep"]:
            for flag, atoms in zip(("--ifs", "--ips", "--irs"), e["osep"]):
                if atoms:
                    a += [flag, "".join(atoms)]
        a += list(e["rd"])
        if e["sep"] != ["."]:
            a += ["--flatsep", "".join(e["sep"])]
        a += ["--ojsonl", "cat"]
        rb_of[i0] = len(rb_cases)
        rb_cases.append({"argv": a, "stdin": res[i0]["stdout"], "env": dict(ENV0), "timeout_ms": 10000})
    rb_res = vlib.run_cases(rb_cases) if rb_cases else []
    vlib.confirm_timeouts(rb_cases, rb_res)

    # ---- 5. observations ------------------------------------------------------------------------------------------
    obs, omap = [], []
    for i, (m, rr) in enumerate(zip(meta, res)):
        if m["t"] != "path":
            continue
        if rr["timed_out"]:
            V.violation({"clause": "convert", "why": "hang", "path": ">".join(m["path"])}, {"shell": cases[i]["shell"]})
            continue
        last = (rr.get("files") or {}).get("s%d.txt" % (len(m["path"]) - 1))
        out = parse_json_records(last) if last is not None else None
        obs.append({"t": "path", "path": m["path"], "sep": m["sep"], "noun": m["noun"], "s": m["s"],
                    "out": out if out is not None else [], "exit": rr["exit"] if out is not None else (rr["exit"] or -3)})
        omap.append(i)
    for x, i0 in zip(flags, fidx):
        e = x["e"]
        r1, r2 = res[i0], res[i0 + 1]
        if r1["timed_out"] or r2["timed_out"]:
            V.violation({"clause": "flags", "why": "hang", "argv": " ".join(token(t) for t in e["argv"])}, {"entry": e})
            continue
        if i0 in rb_of:
            r3 = rb_res[rb_of[i0]]
            text, ex3 = r3["stdout"], (-2 if r3["timed_out"] else r3["exit"])
        else:
            text, ex3 = r1["stdout"], 0
        recs = parse_json_records(text)
        exit_ = r1["exit"] or r2["exit"] or ex3 or (0 if recs is not None else -3)
        obs.append({"t": "flag", "in": e["in"], "out": e["out"], "sep": e["sep"], "probe": e["probe"],
                    "flagout": r1["stdout"].encode("utf-8", "surrogatepass").hex(), "expout": r2["stdout"].encode("utf-8", "surrogatepass").hex(),
                    "recs": recs if recs is not None else [], "exit": exit_})
        omap.append(("flag", i0, x))
    if os.environ.get("VERIF_C02_SAVEOBS"):      # development aid
        with open(os.environ["VERIF_C02_SAVEOBS"], "w") as f:
            f.write("".join(json.dumps(o) + "\n" for o in obs))
    bad, n = b3.validate("ConvertObs", obs, consts, chunk=max(200, len(obs) // 16 + 1), threads=min(8, max(2, workers * 2)))
    states += n
    transitions += n
    vlib.log("[c02] %d observations judged at %.0fs" % (len(obs), time.time() - t0))
    outside = 0
    for idx, p in bad:
        ref, o = omap[idx], obs[idx]
        if p["why"] == "outside":
            outside += 1
            if outside < 4:
                vlib.log("[c02] outside the domain: %s" % json.dumps({k: v for k, v in o.items() if k != "out"})[:1500])
            continue
        if o["t"] == "path":
            m = meta[ref]
            V.violation({"clause": "convert", "why": p["why"], "path": ">".join(m["path"]), "sep": "".join(m["sep"]), "noun": m["noun"], "family": m["why"],
                         "reads": sorted(set(m["path"][:-1]))},
                        {"shell": cases[ref]["shell"], "input_text": cases[ref]["files"]["in.txt"][:2000], "records": m["s"][:5],
                         "observed": o["out"][:5], "exit": o["exit"], "stderr": res[ref]["stderr"][:600],
                         "files": {k: v[:1500] for k, v in (res[ref].get("files") or {}).items() if k != "in.txt"}})
        else:
            _, i0, x = ref
            e = x["e"]
            last = e["exp"][-1] if e["exp"] else ["t", ""]
            V.violation({"clause": "flags", "why": p["why"], "grp": e["grp"], "argv": " ".join(token(t) for t in e["argv"]),
                         "rc": json.dumps(e["rc"]) if e["rc"] else "", "option": next((t[1] for t in e["argv"] if t[0] == "t" and t[1].startswith("-")), ""),
                         "in": e["in"], "out": e["out"],
                         "value_atoms_rs": "multi" if last[0] != "t" and len(last[1]) > 1 and e["exp"][-2][1].endswith("rs") else ""},
                        {"entry": e, "expansion": [token(t) for t in e["exp"]], "probe_text": cases[i0]["stdin"],
                         "under_flag": res[i0]["stdout"][:1500], "under_expansion": res[i0 + 1]["stdout"][:1500],
                         "stderr_flag": res[i0]["stderr"][:400], "stderr_expansion": res[i0 + 1]["stderr"][:400],
                         "exits": [res[i0]["exit"], res[i0 + 1]["exit"]], "read_back": o["recs"]})
    if outside:
        raise vlib.Inconclusive("%d executed cases lie outside the domain of the specification (harness error)" % outside)

    # ---- 6. non-vacuity of the judge ------------------------------------------------------------------------------
    import copy
    badset = {idx for idx, _ in bad}
    if not full:
        vlib.log("[c02] partial development run (VERIF_C02_PARTS): no evidence written")
        return V.finish()
    base_p = next(o for k, o in enumerate(obs) if o["t"] == "path" and o["out"] and k not in badset)
    base_f = next(o for k, o in enumerate(obs) if o["t"] == "flag" and o["recs"] and k not in badset)
    cp, cf1, cf2 = copy.deepcopy(base_p), copy.deepcopy(base_f), copy.deepcopy(base_f)
    cp["out"][0][0][0] = cp["out"][0][0][0] + ["z"]          # a key of the first record gains a character
    cf1["expout"] = cf1["expout"] + "0a"                     # the expansion wrote one more byte
    cf2["recs"] = cf2["recs"][1:]                            # a record is missing from what was read back
    sb, _ = b3.validate("ConvertObs", [cp, base_p, cf1, base_f, cf2], consts)
    st = {"ok": sorted({b[0] for b in sb}) == [0, 2, 4], "reported": sorted({b[0] for b in sb})}
    cov["obs_selftest"] = st
    if st["ok"] is False:
        raise vlib.Inconclusive("observation self-test failed: %r" % st)

    npath = sum(1 for o in obs if o["t"] == "path")
    nrec = sum(len(o["s"]) for o in obs if o["t"] == "path")
    nontrivial = sum(1 for o in obs if o["t"] == "path" and any(any(v[0] != "s" for _, v in r) for r in o["s"])) \
        + len({json.dumps(o["path"]) + json.dumps(o["s"]) for o in obs if o["t"] == "path" and o["s"] and all(all(v[0] == "s" for _, v in r) for r in o["s"])}) \
        + len({o["flagout"] + json.dumps([o["in"], o["out"]]) for o in obs if o["t"] == "flag"})
    grp = {}
    for x in flags:
        grp[x["e"]["grp"]] = grp.get(x["e"]["grp"], 0) + 1
    k1, k2 = n_nested_cases // 2, n_nested_cases + 5
    cov["samples"] += [
        {"pipeline": cases[k]["shell"].replace(mlr, "mlr"), "first_input_lines": cases[k]["files"]["in.txt"][:300], "records_read_back": (res[k].get("files") or {}).get("s%d.txt" % (len(meta[k]["path"]) - 1), "")[:300]}
        for k in (k1, k2) if k < len(meta) and meta[k]["t"] == "path"]
    cov["samples"].append({"flag": [token(t) for t in flags[0]["e"]["argv"]], "expansion": [token(t) for t in flags[0]["e"]["exp"]],
                           "output": res[fidx[0]]["stdout"][:200]})
    cov.update({
        "states": states, "transitions": transitions, "traces_validated_against_impl": len(obs), "evaluations": len(cases) + len(rb_cases),
        "distinct_nontrivial": nontrivial,
        "rule": "laws (TLC, on the specification): every nested record of depth <= 3 with <= 2 fields per map / elements per array over the key "
                "and scalar sets %s (%d records) x separators . : ;, plus %d records whose keys contain a separator; binding: every one of those "
                "records through at least one JSON -> tabular (-> tabular) -> JSON pipeline (batched <= %d per process; %d records went through "
                "pipelines), %d flat stream x format pair/triple pipelines (%s of the %d + %d enumerated, the same number per format path), and "
                "every entry of the documented flag table (%d entries: %s) run next to its expansion; non-trivial = nested batches + distinct "
                "(path, flat stream) + distinct (formats, output text) of table entries"
                % (" and ".join("%d keys x %d scalars" % sp for sp in spaces), len(fam["nested"]), len(fam["sepkeys"]), bsize, nrec,
                   len(pairs) + len(triples), "a seeded sample", len(all_pairs), len(all_triples), len(flags),
                   ", ".join("%s %d" % kv for kv in sorted(grp.items()))),
        "exhaustive": False, "flag_table_exhaustive": True, "nested_records_exhaustive": True, "flag_entries": len(flags), "flag_groups": grp,
        "format_pairs_run": len({tuple(c["path"][:2]) for c in pairs}), "format_triples_run": len({tuple(c["path"][:3]) for c in triples}),
        "pair_cases_enumerated": len(all_pairs), "triple_cases_enumerated": len(all_triples),
        "conversion_pipelines": npath, "records_through_pipelines": nrec, "outside_domain": outside,
    })
    rc = V.finish()
    vlib.write_evidence(PROP, tier, seed, time.time() - t0, cov, [
        "cells are benign (letters, digits, empty; keys may contain the flatten separators . : ;): quoting and escaping is C01's question; "
        "a scalar is its text (7 and \"7\" are the same cell): typing is C03/C06's",
        "nested records: depth <= 3, <= 2 fields per map / elements per array, keys a,(b,)1,2 (1 and 2 make array-like maps), scalars \"\", x(, 7)",
        "which format can carry which stream (Carries in Convert.tla) is argued from file-formats.md / record-heterogeneity.md; "
        "streams outside it are not run",
        "the flag table is transcribed from reference-main-flag-list.md, file-formats.md, reference-main-separators.md, customization.md and "
        "`mlr help flag` (the --X2b savers); a flag missing from the documentation is not in the table",
        "the harness renders probe texts with its own one-line-per-format templates and reads results back through mlr's own readers "
        "into JSON Lines (trusted: python json parser, /bin/sh)",
    ], len(V.violations))
    return rc


def replay(path):
    with open(path) as f:
        v = json.load(f)
    print(json.dumps(v, indent=1))
    return 0
