#!/usr/bin/env python3
"""Regenerates the table of DESIGN.md section 11.5 (between the header row and the first blank line after it) from
seeded/*/meta.json."""
import glob
import json
import os
import re

ROOT = os.path.dirname(os.path.dirname(os.path.abspath(__file__)))
rows = [json.load(open(f)) for f in sorted(glob.glob(os.path.join(ROOT, "seeded", "*", "meta.json")))]


def short(s, n):
    s = str(s).replace("|", "\\|").replace("\n", " ")
    return s if len(s) <= n else s[:n - 3] + "..."


def stood(m):
    fr = str(m.get("first_result", ""))
    if fr.startswith("caught"):
        return short(fr.split(":")[0].replace(" (quick exit 1)", "").replace(" as the checks stood", ""), 40)
    if fr.startswith("exit 2"):
        return "exit 2"
    mm = re.match(r"missed( by [A-Za-z0-9 ]+? quick)?", fr)
    return mm.group(0) if mm else short(fr, 30)


table = ["| change | property | what it is | as the checks stood | now reported by |", "|---|---|---|---|---|"]
for m in rows:
    table.append("| %s | %s | %s | %s | %s |" % (m["id"], m["property"], short(m.get("change", ""), 112), stood(m),
                                                 short(m.get("caught_by", ""), 90)))
path = os.path.join(ROOT, "DESIGN.md")
text = open(path).read()
start = text.index("| change | property | what it is |")
end = text.index("\n\n", start)
text = text[:start] + "\n".join(table) + text[end:]
open(path, "w").write(text)
first = sum(1 for m in rows if str(m.get("first_result", "")).startswith("caught"))
print("%d changes, %d caught as the checks stood" % (len(rows), first))
