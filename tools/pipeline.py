"""Engine shared by C04 and C17: exhaustive TLC runs of Pipeline.tla, execution of the same
configurations on the real binary (B3), validation of hook traces (B1), delay sweeps (B2-lite).

The harness renders a model configuration as a command line and parses stdout back into item
numbers; every expectation is computed by TLC from PipeSem.tla."""
import json
import os
import random
import re
import shutil

import vlib

# ---------------------------------------------------------------------------
# TLC on the design


def mc_cfg(family, maxlen, bs, trailing=True, blocking=False, props=True, liveness=False, invariants=None, first_error_only=False):
    inv = invariants or "TypeOK PrefixOrder OutputCorrect SuccessDeterministic ErrorNotLost SuccessMeansClean FailDeterministic"
    if family == "tailf" and not invariants:
        inv += " TailF"
    lines = [
        "SPECIFICATION %s" % ("FairSpec" if liveness else "Spec"),
        "CONSTANTS",
        "  Configs <- MCConfigs",
        "  DoneSendBlocking = %s" % ("TRUE" if blocking else "FALSE"),
        "  ExitStops = TRUE",
        "  FirstErrorOnly = %s" % ("TRUE" if first_error_only else "FALSE"),
        "  MaxLen = %d" % maxlen,
        "  Trailing = %s" % ("TRUE" if trailing else "FALSE"),
        "  Bs = {%s}" % ", ".join(str(b) for b in bs),
        '  Family = "%s"' % family,
        "INVARIANTS " + inv,
        "CHECK_DEADLOCK TRUE",
    ]
    if liveness:
        lines.append("PROPERTY Termination")
    return "\n".join(lines) + "\n"


def run_mc(family, maxlen, bs, trailing=True, blocking=False, liveness=False, timeout=3000, workers=None, invariants=None,
           first_error_only=False):
    cfgtext = mc_cfg(family, maxlen, bs, trailing, blocking, liveness=liveness, invariants=invariants, first_error_only=first_error_only)
    r = vlib.tlc("MCPipeline", cfg="gen.cfg", extra_files={"gen.cfg": cfgtext}, timeout=timeout, workers=workers)
    return r


def gen_configs(family, maxlen, bs, trailing=True):
    cfgtext = "\n".join([
        "INIT Init", "NEXT Next", "CONSTANTS",
        "  MaxLen = %d" % maxlen,
        "  Trailing = %s" % ("TRUE" if trailing else "FALSE"),
        "  Bs = {%s}" % ", ".join(str(b) for b in bs),
        '  Family = "%s"' % family,
        "INVARIANT Emit", "CHECK_DEADLOCK FALSE", ""])
    r = vlib.tlc("PipelineGen", cfg="gen.cfg", extra_files={"gen.cfg": cfgtext}, workers=1, timeout=1200)
    if not r.ok:
        raise vlib.Inconclusive("PipelineGen failed: %s\n%s" % (r.error or r.violated, r.out[-2000:]))
    return r.printed


# ---------------------------------------------------------------------------
# Rendering a configuration for the real binary (no semantics: a table of spellings)

def verb_argv(v, pos, fmt):
    k, p = v["k"], v["p"]
    if k == "cat":
        return ["cat"]
    if k == "filt":
        return ["filter", "$i % 2 == 1"]
    if k == "dup":
        return ["repeat", "-n", "2"]
    if k == "head":
        return ["head", "-n", str(p)]
    if k == "tac":
        return ["tac"]
    if k == "tee":
        return ["tee", "tee%d.out" % pos]
    if k == "print":
        return ["put", 'print "p".$i']
    if k == "fail":
        return ["put", '@c += 1; if (@c == %d) {int z = "x"}' % p]
    if k == "seqgen":
        return ["seqgen", "-f", "i", "--start", "1", "--stop", str(p)]
    raise ValueError(k)


def render(cfg, mlr, variant=None):
    """variant: dict(fmt=dkvp|csv|nidx|json, env={}, flags=[...]). Returns a runner case."""
    variant = variant or {}
    fmt = variant.get("fmt", "dkvp")
    chain = cfg["chain"]
    has_trailing = fmt != "json"
    user = chain[:-1] if has_trailing else chain
    argv = [mlr]
    if fmt == "csv":
        argv += ["--icsv", "--odkvp"]
    elif fmt == "json":
        argv += ["--ijson", "--ojsonl"]
    elif fmt == "nidx":
        argv += ["--inidx", "--ifs", "space", "--odkvp"]
    argv += ["--records-per-batch", str(cfg["b"])]
    argv += variant.get("flags", [])
    werr = cfg.get("werr", 0)
    if werr:
        argv += ["--ocsv"]
    files = {}
    names = []
    for j, f in enumerate(cfg["files"]):
        name = "f%d.%s" % (j + 1, fmt)
        names.append(name)
        if f == [0]:
            continue
        if fmt == "dkvp":
            body = "".join(("i=%d\n" % x) if x > 0 else "i=%d\n" % x for x in f)
        elif fmt == "csv":
            body = "i\n" + "".join(("%d\n" % x) if x > 0 else "x,y\n" for x in f)
        elif fmt == "nidx":
            body = "".join("%d\n" % x for x in f)
        elif fmt == "json":
            body = "[\n" + ",\n".join(('{"i": %d}' % x) if x > 0 else '{"i": ' for x in f) + "\n]\n"
        files[name] = body
    if not cfg["files"]:
        if not (user and user[0]["k"] == "seqgen"):
            argv += ["-n"]
    first = True
    for pos, v in enumerate(user, start=1):
        if not first:
            argv.append("then")
        first = False
        if werr and pos == len(user):
            # the model's last user verb is a pass-through; here it also makes the werr-th record
            # it sees inexpressible in the CSV output (different key in the first column)
            argv += ["put", '@w += 1; if (@w == %d) {unset $i; $z = 1}' % werr]
        elif fmt == "nidx" and v["k"] == "filt":
            argv += ["filter", "$1 % 2 == 1"]
        elif fmt == "nidx" and v["k"] == "print":
            argv += ["put", 'print "p".$1']
        else:
            argv += verb_argv(v, pos, fmt)
    argv += names
    case = {"argv": argv, "files": files, "collect": True, "timeout_ms": variant.get("timeout_ms", 8000),
            "env": dict(variant.get("env", {}))}
    if cfg.get("ferr"):
        import shlex
        case["shell"] = " ".join(shlex.quote(a) for a in argv) + " > /dev/full"
    return case


_item_res = [
    (re.compile(r"^i=(\d+)$"), 0),
    (re.compile(r"^1=(\d+)$"), 0),
    (re.compile(r"^p(\d+)$"), 100),
    (re.compile(r'^\{"i": (\d+)\}$'), 0),
    (re.compile(r"^(\d+)$"), 0),
]


def parse_items(text, csv=False):
    items = []
    lines = text.split("\n")
    if lines and lines[-1] == "":
        lines.pop()
    for n, line in enumerate(lines):
        if csv and line == "i":
            continue
        for rx, off in _item_res:
            m = rx.match(line)
            if m:
                items.append(off + int(m.group(1)))
                break
        else:
            items.append(-1)
    return items


def observe(cfg, case, res):
    werr = cfg.get("werr", 0)
    tee = []
    chain = cfg["chain"]
    for pos, v in enumerate(chain, start=1):
        if v["k"] == "tee":
            name = "tee%d.out" % pos
            present = name in (res.get("files") or {})
            recs = parse_items(res["files"][name], csv=bool(werr)) if present else []
            tee.append({"i": pos, "recs": recs, "present": present})
    stderr = res.get("stderr", "")
    return {
        "cfg": cfg,
        "out": parse_items(res["stdout"], csv=bool(werr)),
        "exit": res["exit"],
        "timedout": bool(res["timed_out"]),
        "diag": ("mlr" in stderr),
        "tee": tee,
    }


def is_crash(res):
    s = res.get("stderr", "")
    return ("panic:" in s) or ("fatal error:" in s) or ("goroutine " in s and "[running]" in s)


def validate_obs(obs, chunk=100000):
    """Returns (list of (index, why), tlc stats)."""
    bad = []
    states = 0
    for start in range(0, len(obs), chunk):
        part = obs[start:start + chunk]
        text = "".join(json.dumps(o) + "\n" for o in part)
        r = vlib.tlc("PipelineObs", extra_files={"obs.ndjson": text}, workers=1, timeout=3000, deadlock=True)
        if r.error or r.violated:
            raise vlib.Inconclusive("PipelineObs failed: %s\n%s" % (r.error or r.violated, r.out[-3000:]))
        if r.distinct != len(part):
            raise vlib.Inconclusive("PipelineObs visited %d of %d observations" % (r.distinct, len(part)))
        states += r.distinct
        for p in r.printed:
            if isinstance(p, dict) and "line" in p:
                bad.append((start + p["line"] - 1, p["why"]))
    return bad, states


# ---------------------------------------------------------------------------
# B1: hook traces

SITE_MAP = {
    "lines.pollNone": ("l", "pollNone"), "lines.pollDone": ("l", "pollDone"),
    "lines.sendEnd": ("l", "sendEnd"), "lines.lastSendEnd": ("l", "lastSendEnd"),
    "reader.fileStart": ("r", "fileStart"), "reader.openErrEnd": ("r", "openErrEnd"),
    "reader.eosEnd": ("r", "eosEnd"), "reader.linesRecvEnd": ("r", "linesRecvEnd"),
    "reader.dataErrEnd": ("r", "dataErrEnd"), "reader.sendEnd": ("r", "sendEnd"),
    "verb.recvEnd": ("v", "recvEnd"), "dd.pollNone": ("v", "pollNone"), "tee.pollNone": ("v", "pollNone"),
    "dd.fwdBegin": ("v", "pollFlag"), "tee.swallowed": ("v", "pollFlag"), "dd.fwdEnd": ("v", "fwdEnd"),
    "head.ownDoneEnd": ("v", "ownDoneEnd"), "verb.sendEnd": ("v", "sendEnd"),
    "verb.errPosted": ("v", "errPosted"), "verb.errDropped": ("v", "errDropped"),
    "verb.errDoneSent": ("v", "errDoneSent"), "verb.errDoneDropped": ("v", "errDoneDropped"),
    "verb.drainEnd": ("v", "drainEnd"), "seqgen.sendEnd": ("v", "sgSendEnd"),
    "seqgen.pollNone": ("v", "sgPollNone"), "seqgen.fwdBegin": ("v", "sgPollFlag"),
    "seqgen.fwdEnd": ("v", "sgFwdEnd"), "seqgen.eosSendEnd": ("v", "sgEosSendEnd"),
    "seqgen.lastSendEnd": ("v", "sgLastSendEnd"),
    "writer.recvEnd": ("w", "recvEnd"), "writer.errPosted": ("w", "errPosted"),
    "writer.errDropped": ("w", "errDropped"), "writer.doneEnd": ("w", "doneEnd"),
    "main.gotInputErr": ("m", "gotInputErr"), "main.gotDataErr": ("m", "gotDataErr"),
    "main.gotDone": ("m", "gotDone"), "main.drainInputErr": ("m", "drainInputErr"),
    "main.drainInputNone": ("m", "drainInputNone"), "main.drainDataErr": ("m", "drainDataErr"),
    "main.drainDataNone": ("m", "drainDataNone"), "main.return": ("m", "return"),
}
# sites after which an operation with an effect on shared state may be in progress
OPEN_SITES = {"seqgen.fwdEnd"}
# events that carry no information for the model
DROP_SITES = {"main.start", "main.selectBegin", "main.drainBegin", "reader.start", "lines.start",
              "chain.setup", "verb.start", "writer.start", "writer.wrote", "fileWriter.setup"}


def normalize_trace(raw_lines, cfg):
    """raw hook log (list of dicts) -> run record for PipelineTrace.tla, or raises Inconclusive
    when the log is not of the shape the binding expects."""
    n = len(cfg["chain"])
    logs = {"m": [], "r": [], "l": [], "w": [], "v": [[] for _ in range(n)]}
    last_site = {}
    order = sorted(raw_lines, key=lambda e: e["n"])
    # one line-reader goroutine per file, strictly one after the other: concatenate their logs in
    # order of first appearance (their End hooks may be logged after the next one has started)
    first_seen = {}
    for e in order:
        if e["role"] == "lines":
            first_seen.setdefault(e["g"], e["n"])
    order = [e for e in order if e["role"] != "lines"] + \
        sorted((e for e in order if e["role"] == "lines"), key=lambda e: (first_seen[e["g"]], e["n"]))
    unknown = []
    for e in order:
        role, site = e["role"], e["site"]
        key = None
        if role == "main":
            key = "m"
        elif role == "reader":
            key = "r"
        elif role == "lines":
            key = "l"
        elif role == "writer":
            key = "w"
        elif re.match(r"^v\d+$", role):
            key = ("v", int(role[1:]))
        elif role == "chain" or site == "chain.setup" or role.startswith("fw:") or site == "fileWriter.setup":
            continue
        else:
            unknown.append(e)
            continue
        last_site[key] = site
        if site in DROP_SITES or (site.endswith("Begin") and site not in SITE_MAP):
            continue
        if site not in SITE_MAP:
            unknown.append(e)
            continue
        kind, name = SITE_MAP[site]
        ev = {"s": name, "a": e.get("a", [])}
        if isinstance(key, tuple):
            if key[1] >= n:
                unknown.append(e)
                continue
            logs["v"][key[1]].append(ev)
        else:
            logs[key].append(ev)
    if unknown:
        raise vlib.Inconclusive("trace has events the binding does not know: %r" % unknown[:3])

    def is_cut(key):
        s = last_site.get(key)
        return bool(s) and (s.endswith("Begin") or s in OPEN_SITES)
    cut = {"m": is_cut("m"), "r": is_cut("r"), "l": is_cut("l"), "w": is_cut("w"),
           "v": [is_cut(("v", i)) for i in range(n)]}
    run = {"cfg": cfg, "cut": cut}
    run.update(logs)
    return run


def read_trace_file(path):
    out = []
    if not os.path.exists(path):
        return out
    with open(path) as f:
        for line in f:
            line = line.strip()
            if not line:
                continue
            try:
                out.append(json.loads(line))
            except ValueError:
                pass  # a line cut by process exit
    return out


def validate_traces(runs, timeout=3000):
    """runs: normalized run records. Returns (rejected list of dict(run index, matched, total), TLC result)."""
    if not runs:
        return [], None
    text = "".join(json.dumps(r) + "\n" for r in runs)
    r = vlib.tlc("PipelineTrace", extra_files={"traces.ndjson": text}, workers=1, timeout=timeout, dfs=True)
    if r.error or (r.violated and r.violated != "postcondition"):
        # an invariant violated on a matched behaviour is reported by the caller
        if r.violated:
            return [{"invariant": r.violated}], r
        raise vlib.Inconclusive("PipelineTrace failed: %s\n%s" % (r.error, r.out[-3000:]))
    rej = [p for p in r.printed if isinstance(p, dict) and "rejected" in p]
    return rej, r
