#!/bin/sh
# Offline setup: regenerate the DSL parser (the tree's generated parser.go is an empty file),
# build mlr with the verif tag and the harness tools. Everything is rebuilt again by each check.
set -e
cd "$(dirname "$0")/.."
export GOFLAGS=-mod=mod GOPROXY=off GOSUMDB=off GOTOOLCHAIN=local
/usr/bin/python3 - <<'PY'
import sys
sys.path.insert(0, "tools")
import vlib
vlib.build_mlr()
vlib.build_harness("runner", tags="")
print("setup ok")
PY
